# Property table for bin/verif: which harness decides which property and the
# budgets of each tier.

REAL_CORE = ["every package of the repository under test (instrumented copy of the working tree)", "protobuf runtime"]

CHECKS = {
    "C09": {
        "pkg": "ctreeh",
        "quick": {"wall_s": 20},
        "thorough": {"wall_s": 240},
        "rule": "Scenario: one task issuing 1..40 random tree operations (Add/Get/GetLeafValue/GetLeaf/Query/Walk/WalkSorted/"
                "Delete/DeleteConditional/WalkDeleted/Children) over paths of length 0..4 from {a,b,c,*}; every result, the full "
                "content after every operation and delete-vs-query agreement are compared with a prefix-free map model. "
                "Non-trivial: at least 2 operations.",
        "real": ["ctree (instrumented)"],
        "stub": [],
        "assumptions": ["no schedule to explore: the only simulator-owned nondeterminism is map iteration order (DESIGN.md 7 C09)"],
    },
    "C10": {
        "pkg": "ctreeh",
        "quick": {"wall_s": 30, "race_wall_s": 25, "race_max_runs": 1200},
        "thorough": {"wall_s": 420, "race_wall_s": 240, "race_max_runs": 1800},
        "rule": "Scenario: 2..16 tasks with random operation mixes on overlapping paths under a seeded scheduler "
                "(random / sticky / PCT). Oracles: porcupine linearizability of point operations, deletes and the final walk "
                "against the prefix-free map model; present-throughout / absent-throughout windows for queries and walks; "
                "simulator-detected deadlock; panics; data races via the race detector inside the serialised run. "
                "Non-trivial: >= 2 tasks and >= 3 operations. Sorted walks (WalkSorted) take part in the concurrent workloads: window clauses as for Walk plus lexicographic order.",
        "real": ["ctree (instrumented)"],
        "stub": [],
        "assumptions": ["porcupine histories are capped at ~40 operations; Unknown (timeout) is counted inconclusive"],
    },
}

CHECKS["C11"] = {
    "pkg": "coalesceh",
    "quick": {"wall_s": 25, "race_wall_s": 15, "race_max_runs": 1200},
    "thorough": {"wall_s": 300, "race_wall_s": 180, "race_max_runs": 1800},
    "rule": "Scenario: 1..4 producer tasks (Insert over 2..4 items, Len, IsClosed; some end with Close, the ONCE pattern), an optional "
            "closer and canceller, one consumer looping Next(ctx), all under the seeded scheduler with select polling order drawn from "
            "the tape. Oracles: porcupine against a FIFO-with-coalescing model, stamp clauses (insert after Close returned is refused, "
            "no context error before cancellation), lost wake-up = consumer still blocked at quiescence with items pending, queue "
            "closed or context cancelled. Non-trivial: a consumer and >= 3 operations.",
    "real": ["coalesce (instrumented)", "context (std)"],
    "stub": [],
    "assumptions": ["an Insert that overlaps Close may be accepted (the statement covers insertions that completed before Close)"],
}

CHECKS["C06"] = {
    "pkgs": ["matchh", "subscribeh"],
    "quick": {"wall_s": 40, "race_wall_s": 16, "race_max_runs": 1000},
    "thorough": {"wall_s": 420, "race_wall_s": 160, "race_max_runs": 1800},
    "rule": "Three scenario kinds: (conc) 1..3 clients adding/removing distinct queries and 1..3 updaters issuing Update / UpdateOnce "
            "(multi-path notifications sharing one updated set) concurrently under the seeded scheduler, checked with must/may windows on "
            "invoke/return stamps against the compatibility relation of the statement; (pairs) the finite space of query x update path "
            "pairs of length 0..4 over {a,b,*} walked in chunks of 200 (probe pairs-chunk-NNN per chunk; all chunks are hit in the quick "
            "tier), including silence after remove and the unaffected second client; (tree) every leaf ctree.Query(q) returns is offered to "
            "a subscriber of q. Non-trivial: >= 2 tasks with at least one registration and one update, or any pairs/tree run. "
            "Server level (second half of the budget, subscribe harness): Subscribe RPCs with 1..4 paths per subscription list (equal and "
            "different lengths, shared prefixes) are run to completion and the matcher must hold no registration afterwards; nothing is "
            "streamed to a subscriber none of whose paths agrees with it.",
    "real": ["match (instrumented)", "ctree (instrumented)", "subscribe, cache, coalesce (instrumented) for the server-level clause"],
    "stub": [],
    "assumptions": ["a client never holds the same query twice at once (match keeps a set of clients per query)"],
}

CACHE_RULE = ("Scenario: 1..4 targets, one stream task per target playing 4..60 generated notifications (single / multi-update / atomic / "
              "exact, subtree and wildcard deletes / empty; timestamps drawn around the stored ones so that older, equal, equal-with-"
              "different-value, newer and far-future all occur; shared prefix objects with spare capacity) and lifecycle calls (Reset, "
              "Remove, Add, Sync, Connect, ConnectError), a clock task that drifts and jumps the collector's clock (cache.Now) forwards "
              "and backwards, optional refresh (UpdateMetadata/UpdateSize) and reader tasks; future threshold 0 / small / large, "
              "event-driven emulation on/off. After the run every target's operations are replayed through the reference model: "
              "result class, change-feed entries per operation, stored content and timestamps after every operation, feed replay == "
              "content, input immutability, retroactive mutation of delivered notifications, reset/remove clauses, counters. "
              "Deletes inside multi notifications aim at existing leaves (this leaf, its parent, a sibling below the prefix, *). "
              "Histories also contain partial re-sends (1-3 leaves written before, mostly with unchanged values, in one notification), "
              "Reset in every clock mode followed by low then high timestamps, and - with a small future threshold - bursts whose "
              "timestamps creep ahead of the clock in threshold-sized steps. At the end of every run a consumer of the feed must hold "
              "each metadata leaf with the value the cache stores (leaves deleted during the run excepted). A Remove is also raced "
              "against a second goroutine that re-adds the target the moment it is gone (stall fault at the clock seam inside Remove). "
              "Second phase in 30% of the C03/C14 runs: one Reset task per target raced against an admin task that removes and re-adds "
              "the same targets; at quiescence feed replay == cache content (data leaves equal, no metadata leaf reported that the cache "
              "does not store). C03 also runs the subscribe harness (real Subscribe server as the feed consumer, slow STREAM subscribers): "
              "every notification handed to GnmiUpdate is byte-identical afterwards. C15 also runs the latency harness (compute task, "
              "periodic refresher with jitter and stalls, optional second refresher as a Reset would be): every exported window statistic "
              "lies between the value over the samples certainly inside the window and the value including the slot at its edge. "
              "Non-trivial: >= 3 operations judged.")
for _p in ("C02", "C03", "C14", "C15"):
    CHECKS[_p] = {
        "pkgs": ["cacheh", "subscribeh"] if _p in ("C14", "C03") else (["cacheh", "latencyh"] if _p == "C15" else ["cacheh"]),
        "quick": {"wall_s": 40 if _p == "C03" else 25, "race_wall_s": 15, "race_max_runs": 800},
        "thorough": {"wall_s": 360, "race_wall_s": 180, "race_max_runs": 1500},
        "rule": CACHE_RULE,
        "real": ["cache, ctree, metadata, latency, path, value, errlist (instrumented)", "protobuf runtime"],
        "stub": ["glog (discarded)"],
        "assumptions": ["one update stream per target (DESIGN.md 5 rule 3)", "the collector clock is cache.Now/latency.Now (existing seams)"],
    }

SUB_RULE = ("Scenario: real cache + real subscribe.Server (generated gNMI stub on a simulated stream: FIFO, marshal/unmarshal, flow-control "
            "window 0/1/2/8/64); 1..3 targets preloaded sequentially, then one writer task per target (updates, deletes, re-adds, Reset, "
            "Remove/Add, Sync/Connect) racing 1..4 subscribers (STREAM / ONCE / POLL, single target or *, globbed and origin-qualified "
            "path sets, updates_only) that start after a drawn number of scheduling points; readers can be slow or stall transiently or "
            "for good (flow-control fault), cancel their own RPC after n responses, idle for seconds or minutes between poll triggers, "
            "join late, or come as twins with identical queries; targets' streams contain quiet periods of virtual time (so that writes "
            "continue after send time-outs fired) and spare targets are removed and re-added over and over under all-targets "
            "subscribers; optional ACL table. Besides the per-mode clauses: a subscriber that never stalled is never terminated by the "
            "send timeout, and a ONCE/POLL call of a prompt reader ends without error. Phases: chaos to quiescence, fair drain, "
            "judgement, cancellation of every RPC. Non-trivial: at least one response delivered and one cache change.")
for _p in ("C04", "C05", "C07", "C08"):
    CHECKS[_p] = {
        "pkg": "subscribeh",
        "quick": {"wall_s": 30, "race_wall_s": 15, "race_max_runs": 600},
        "thorough": {"wall_s": 420, "race_wall_s": 180, "race_max_runs": 1500},
        "rule": SUB_RULE,
        "real": ["subscribe, cache, match, coalesce, ctree, path, metadata (instrumented)", "generated gNMI server stub", "protobuf runtime"],
        "stub": ["gRPC transport (simgrpc stream: FIFO, reliable, window-limited, marshalled)", "glog (discarded)"],
        "assumptions": ["one update stream per target", "gRPC delivers a stream in order without loss (DESIGN.md 3.5)"],
    }

CHECKS["C17"] = {
    "pkg": "targeth",
    "quick": {"wall_s": 20},
    "thorough": {"wall_s": 240, "race_wall_s": 60, "race_max_runs": 1500},
    "rule": "Scenario: 1..3 loader tasks each loading 1..8 configurations derived by mutation (add/remove/edit target, edit/rename request, "
            "re-point target, unused requests, invalid variants, nil, revision greater/equal/smaller), optionally on a base configuration; "
            "handler calls recorded with stamps on the loader's own goroutine (each call is a scheduling point, as a real handler takes locks); map iteration order (the order of handler calls) drawn from "
            "the tape. Oracles: no handler call and no change for a rejected load, exact diff per accepted load, replay == Current(), and "
            "porcupine on the accept/reject decisions against the revision rule. Non-trivial: >= 2 loads.",
    "real": ["target (instrumented)", "protobuf runtime"],
    "stub": [],
    "assumptions": [],
}

CHECKS["C16"] = {
    "pkg": "connectionh",
    "pkgs": ["connectionh", "managerh"],
    "quick": {"wall_s": 40, "race_wall_s": 16, "race_max_runs": 1000},
    "thorough": {"wall_s": 400, "race_wall_s": 160, "race_max_runs": 1800},
    "rule": "Scenario: 2..5 tasks requesting and releasing connections (sometimes twice, sometimes from two goroutines at once, sometimes after a failed request) over 1..3 "
            "addresses with 1..3 cancellable contexts; scripted dial outcomes per address (success / error / blocked until its context is "
            "cancelled, each after an optional virtual delay); the ref++ -> wait-for-ready gap and the dial-failure path are scheduling "
            "points. Then every context is cancelled and every request must return. Oracles on stamps: at most one dial in flight per "
            "address, a connection is never closed before every holder released it and never handed out after it was closed, closed "
            "exactly once when all holders released, and a fresh request to an address nobody holds dials afresh. "
            "Second harness (managerh, half of the budget): the real target manager as the holder of the connections (targets sharing "
            "an address, Remove / Reconnect during slow shared dials): once every target is removed, every connection that was "
            "established has been closed. Non-trivial: >= 2 tasks and >= 2 requests.",
    "real": ["connection (instrumented)", "manager (instrumented; second harness)"],
    "stub": ["grpc.ClientConn (simgrpc.ClientConn: Close/GetState only)", "dial functions (scripted by the harness)"],
    "assumptions": [],
}

CHECKS["C13"] = {
    "pkg": "managerh",
    "quick": {"wall_s": 30, "race_wall_s": 15, "race_max_runs": 500},
    "thorough": {"wall_s": 420, "race_wall_s": 180, "race_max_runs": 1200},
    "rule": "Scenario: real manager.Manager on the real connection.Manager; 1..3 scripted gNMI target endpoints on the simulated transport, each "
            "with cycled session scripts (0..4 messages: update / sync / error response / empty response, optional virtual delays, then gRPC "
            "error / end of stream / silence) and cycled dial outcomes (ok / refused / blocked, optional latency); 1..4 managed targets, some "
            "sharing an endpoint, with global and per-target receive timeouts; 1..3 fault-actor tasks issuing Add / Remove / Reconnect / "
            "duplicate Add / unknown Remove / unknown Reconnect after drawn virtual waits (ns to a minute); retry base/max delay drawn per "
            "run, jitter off. Oracles: per-target callback automaton against what each scripted stream actually sent, a stream is given up by "
            "the manager only for a cause (a Remove/Reconnect call for that target under way, or a silence of the receive timeout in force), silence after Remove "
            "returned, refused calls, Remove returns (quiescence = deadlock oracle), retries never stop, a stream that fell silent under a positive "
            "effective receive timeout (per-target override, else the manager's) is always timed out, back-off gap <= RetryMaxDelay, no "
            "goroutine left after removing everything. Non-trivial: at least one callback and one manager call. 30% of the targets have a second next-hop address on another scripted server (the manager tries a target's addresses in turn within one attempt).",
    "real": ["manager, connection (instrumented)", "generated gNMI client and server stubs", "cenkalti/backoff", "protobuf runtime"],
    "stub": ["gRPC transport and dialling (simgrpc)", "target endpoints (scripted by the harness)", "glog"],
    "assumptions": ["backoff jitter is disabled (RetryRandomization = 0) so that retry delays are a function of the tape"],
}

CHECKS["C18"] = {
    "pkg": "clienth",
    "pkgs": ["clienth", "gclienth"],
    "quick": {"wall_s": 40, "race_wall_s": 16, "race_max_runs": 1000},
    "thorough": {"wall_s": 400, "race_wall_s": 160, "race_max_runs": 1800},
    "rule": "Scenario: client.Reconnect (or a bare client) over BaseClient or CacheClient with 1..3 scripted client types registered through "
            "client.RegisterTest; per attempt: slow connect, Subscribe failure, 0..4 messages (1..3 notifications each, syncs), then error / "
            "EOF / ErrStopReading / block until Close or cancellation; retry base/max delay drawn per run, jitter off. An actor task calls "
            "Close or cancels the context before Subscribe, after 0..60 scheduling points, or after a virtual wait up to two minutes (during "
            "connect, while streaming, in back-off). Oracles: both calls return (quiescence = deadlock) and Subscribe within the back-off "
            "maximum in virtual time; never-closed reconnecting clients keep retrying; disconnect once per ended attempt and reset before each "
            "retry, never after the attempt ended with the subscription context cancelled; Connected first and notification order as "
            "produced; at most one further message after Close returned. Transport variants: scripted ends of stream that beat the "
            "cancellation, and a transport that ignores the context (like the repository's fake client; non-blocking scripts only). "
            "Second harness (gclienth, half of the budget): the same ReconnectClient over the repository's real gNMI transport "
            "(client/gnmi on the simulated gRPC) against a scripted gNMI server: dials refused / delayed / black-holed, streams with "
            "delayed messages ending in error / EOF / silence, Close or cancel at a generated instant; oracles: both calls return within "
            "the back-off maximum of virtual time (a connection attempt ends with its context, not with the query timeout), retries "
            "continue while not closed, callback discipline, per stream Connected first and the stream's notifications in sent order, at "
            "most one message after Close. Non-trivial: more than two recorded events. The subscription context may also end through a deadline carried by the caller's context (both harnesses).",
    "real": ["client (BaseClient, CacheClient, ReconnectClient, getFirst/NewImpl registry; instrumented)", "client/gnmi (real transport, gclienth)", "ctree", "cenkalti/backoff"],
    "stub": ["client.Impl (scripted by the harness through client.RegisterTest; clienth)", "grpc-go (simgrpc; gclienth)", "gNMI server (scripted; gclienth)"],
    "assumptions": ["backoff jitter disabled (RetryRandomization = 0)", "a transport honours the subscription context when it blocks, except in the explicit ignore-context variant"],
}

CHECKS["C20"] = {
    "pkg": "fakeh",
    "quick": {"wall_s": 25, "race_wall_s": 10, "race_max_runs": 1000},
    "thorough": {"wall_s": 300, "race_wall_s": 90, "race_max_runs": 1800},
    "rule": "Scenario: fake-agent configuration with 1..6 values of every kind (int/uint/double ranges, delta ranges, sequential and random "
            "option lists, strings, string lists, bools, deletes), repeats 1..5 or unbounded (cut by the client), initial timestamps and "
            "delta bounds, per-value and global seeds, sync on/off, DisableEof, EnableDelay; STREAM / ONCE / POLL (0..2 triggers) client on a "
            "simulated stream with window 0/1/4/64. Two engines are built from the same configuration and run concurrently under the seeded "
            "scheduler. Oracles on what was handed to Send: reproducibility (the two sequences are identical), non-decreasing timestamps, "
            "repeat counts, value ranges and delta steps, timestamp steps, sync after the first emission of every value, target stamping, "
            "virtual inter-message gaps equal timestamp gaps with delays on. POLL runs may replace the configuration (SetConfig) before the "
            "first poll trigger; later passes are judged against the new one. Non-trivial: >= 2 messages. A fifth of the runs use fixed-responses configurations (played verbatim, each response once, then the sync marker; two engines built from one configuration object, as the fake agent does per Subscribe call). POLL runs may replace the configuration (same shape, other seed and numbers) while the engine rebuilds its generator: each pass must be the old or the new configuration's, whole (lock releases of the fake are scheduling points of their own in this harness). A tenth of the runs drive the generator at queue level with a value added while it is consumed.",
    "real": ["testing/fake/gnmi (Client engine), testing/fake/queue (instrumented)", "generated gNMI stubs", "protobuf runtime"],
    "stub": ["gRPC transport (simgrpc stream)"],
    "assumptions": ["numeric ranges far below 2^62 (the generator's Int63n(max-min+1) overflows beyond; an arithmetic limit of the test fake)",
                    "an unbounded value always advances its timestamp (delta_max >= 1)"],
}

CHECKS["C01"] = {
    "pkg": "pipelineh",
    "quick": {"wall_s": 45, "race_wall_s": 15, "race_max_runs": 200},
    "thorough": {"wall_s": 600, "race_wall_s": 180, "race_max_runs": 600},
    "rule": "Scenario: 1..3 synthetic targets (the repository's fake agent in fixed mode, 1..30 notifications per session: single and "
            "multi-update, deletes incl. subtree and wildcard, scalar types int/uint/string/bool/double/float/decimal/bytes/leaf-list "
            "(+JSON in a sub-batch), keyed paths, origins in the prefix or none, deprecated element paths, right / wrong / missing target "
            "names) -> the shipped collector main package started from a generated text-proto config file (1..n targets, shared or distinct "
            "requests, optional periodic metadata refresh) -> simulated gRPC (window 0/1/8/64) -> client/gnmi -> a reconnecting CacheClient "
            "per target (in 40% of the runs also a second client with the same query that leaves early or between the target's sessions); in "
            "the fault sub-batch targets crash and restart with a different stream at drawn virtual times. At a virtual-time "
            "horizon the client view must equal the reference model's replay of the target's last stream as the collector files it (target "
            "name forced, empty origin promoted to openconfig); then cli.QueryDisplay ONCE in single / proto / group display, and the "
            "shipped gnmi_cli Subscribe branch invoked with query flags, inline -proto and -proto_file must print the same leaves. "
            "Non-trivial: every run. Also: the same subscription through the CLI's POLL (count 2) and STREAM (bounded duration) modes in group display; a partial subscription (one keyed subtree of the target with its origin) handed to the shipped gnmi_cli in four equivalent forms (query flags with bracketed keys, inline proto with the origin in the path, proto file with the origin in the prefix, inline proto with the origin as first element); in a fifth of the runs a scripted target holds a long list of new leaves back until the client is about to subscribe and then sends it back to back, so that the initial walk and the stream overlap. In 30% of the runs the targets' clocks run two hours ahead of the collector's.",
    "real": ["cmd/gnmi_collector and cmd/gnmi_cli (re-packaged main packages: runCollector, executeSubscribe, flag handling)", "manager, connection, cache, subscribe, match, coalesce, ctree, client, client/gnmi, cli, path, value, testing/fake/gnmi (instrumented)", "generated stubs, protobuf, prototext, txtpbfmt, ygot path parsing, backoff, TLS key-pair loading"],
    "stub": ["gRPC transport, dialling and listeners (simgrpc/simnet)", "grpctunnel dialer (constructed, never dialled)", "glog", "OS signals, flag.Parse on a real argv"],
    "assumptions": ["atomic notifications and origins carried in the update path are not generated (the client library flattens atomic containers; the collector files path origins under the promoted prefix origin)",
                    "target streams carry increasing timestamps (otherwise the cache's timestamp discipline, C02, decides what is visible)"],
}

CHECKS["C12"] = {
    "pkgs": ["cacheh", "subscribeh", "pipelineh"],
    "quick": {"wall_s": 54, "race_wall_s": 21, "race_max_runs": 1200},
    "thorough": {"wall_s": 600, "race_wall_s": 180, "race_max_runs": 1800},
    "rule": "Hostile-peer fault: protobuf-valid but adversarial messages (empty and root paths, paths equal to or under meta with right and "
            "wrong value types, nil prefix / nil path, missing and empty values, non-scalar values, deprecated encodings, atomic containers "
            "with an empty prefix, wildcard deletes on empty targets, huge key sets, empty element names, conflicting origins, unknown "
            "modes, empty subscription lists) are delivered (i) by hostile targets through manager and the shipped collector glue, (ii) "
            "directly into cache.GnmiUpdate mixed with ordinary traffic, lifecycle calls and metadata refreshes, (iii) by hostile clients to "
            "the Subscribe server, (iv) by a hostile server to client/gnmi and cli.QueryDisplay in every display mode; always across a real "
            "marshal/unmarshal. Every task of the system is wrapped: a panic whose stack is in repository code is a violation with the "
            "function and panic class as signature; a rejected message must leave stored data intact. Non-trivial: >= 2 messages. A race build runs as well: a data race whose racing access is a Go map operation is reported as C12/fatal-concurrent-map-access (the runtime aborts the process on concurrent map access; recover cannot stop it). Hostile clients include ones that open the RPC and half-close or go away without sending a request.",
    "real": ["cache, value, ctree, path, subscribe, manager, client/gnmi, client, cli, cmd/gnmi_collector (instrumented)"],
    "stub": ["gRPC transport (simgrpc)", "glog (messages are still formatted)"],
    "assumptions": ["byte-level fuzzing of the wire format is a different technique and not done (DESIGN.md 12 A6)"],
}

UNDER_CONSTRUCTION = "check under construction, not claimed yet"
NOT_APPLICABLE = {p: UNDER_CONSTRUCTION for p in ["C%02d" % i for i in range(1, 21)]}
NOT_APPLICABLE["C19"] = ("pure functions of their input (path indexing, value conversion): no schedule, clock, fault, peer or "
                         "interleaving for a simulation to act on; deciding it here would be input generation in simulator "
                         "vocabulary (DESIGN.md 8)")

_CACHE_NOTE = ("Trusts the reference model in sim/model/cachemodel (written from the statements; index paths, value canonicalisation and "
               "wildcard matching in sim/gen are the harness's own code). Where the statement leaves a choice (same timestamp and value in "
               "a different encoding; a trailing glob one element past a leaf; suppression of an unchanged value) either outcome is accepted.")
_SUB_NOTE = ("Trusts the harness's reading of paths (sim/gen), the cache reference model for 'what was certainly stored when', the simulated "
             "stream's gRPC semantics (FIFO, reliable, window-limited) and interval reasoning on global event stamps. Leaves that are only "
             "stream-compatible with a subscription (shorter than its path) are outside 'matching content' and not judged.")
LEVELS = {
    "C12": {
        "text": "Fault injection with structured hostile messages at every place a remote peer's message enters a process of the repository, in "
                "states reached by ordinary seeded traffic; the oracle is the absence of panics in any simulated task plus state preservation "
                "after a rejected message. Evidence, not proof; the wire-format fuzzing named in the quantifier is out of scope of this technique.",
        "design_ref": "7 C12",
        "note": "A panic is attributed by the innermost repository frame of its stack. Messages are generated, not mutated from coverage feedback.",
        "technique": "deterministic simulation with hostile-peer fault injection; oracle = no task panics",
    },
    "C01": {
        "text": "Whole-system simulation: the shipped collector and CLI main packages, the manager, caches, Subscribe server, gNMI client and CLI "
                "display all run for real inside one simulated process group on a simulated transport, under the seeded scheduler and virtual "
                "time, with target crash/restart faults; the client view at a virtual-time horizon is compared with the reference model's "
                "replay of each target's own stream, and the three equivalent CLI invocations with each other. Evidence, not proof.",
        "design_ref": "7 C01",
        "note": "Trusts the cache reference model (validated by C02/C03), the harness's own value decoding and the simulated transport. Convergence is judged at a fixed virtual-time horizon (90 s after the last fault), not at proven quiescence, because the collector's periodic tickers never let the system go idle.",
        "technique": "deterministic whole-system simulation with crash/restart fault injection and a convergence oracle",
    },
    "C20": {
        "text": "Seeded exploration of fake-target configurations with the engine's recv/send goroutines under the seeded scheduler and its "
                "delays in virtual time; every message handed to Send is checked against the configuration, and two engines with the same "
                "configuration and seed running concurrently must emit identical sequences (schedule independence). Evidence, not proof.",
        "design_ref": "7 C20",
        "note": "Trusts the harness's reading of the fake configuration proto. The scheduling-dependent part is small (recv/send goroutines, poll triggers, delays); most of the property is a function of the configuration.",
        "technique": "deterministic simulation: seeded scheduler + virtual time + stream-invariant oracles + twin-engine reproducibility",
    },
    "C18": {
        "text": "Seeded search over the moment of Close / cancellation relative to Subscribe (before it, inside the initDone hand-shake, during a "
                "slow connect, while streaming, in back-off) and over scripted stream outcomes, in virtual time; termination is decided by "
                "simulator quiescence and a virtual-time bound, callback discipline by an automaton over recorded events. Evidence, not proof.",
        "design_ref": "7 C18",
        "note": "Two harnesses: a scripted Impl (clienth) and the real gNMI Impl over the simulated gRPC (gclienth).",
        "technique": "deterministic simulation: seeded scheduler + virtual time + scripted stream faults + termination by quiescence",
    },
    "C13": {
        "text": "Seeded search over schedules and fault sequences (stream errors, end of stream, silence past the receive timeout, dial refusal "
                "and stalls, forced reconnects, removal at arbitrary virtual times) with minute-long back-offs and timeouts costing "
                "microseconds of wall time; callbacks are checked against a per-target session automaton and against what the scripted "
                "streams actually sent. Evidence, not proof.",
        "design_ref": "7 C13",
        "note": "Trusts the simulated transport's stream semantics and the scripted endpoints' own records of what they sent. Liveness is asserted only as simulator quiescence and as bounds in virtual time.",
        "technique": "deterministic simulation: seeded scheduler + virtual time + stream/dial fault scripts + callback automaton",
    },
    "C16": {
        "text": "Seeded search over interleavings of Connection()/done() callers with scripted dial outcomes (fault injection at the dial seam: "
                "refusal, slow dial, dial blocked until cancelled) and context cancellations at arbitrary points; reference-count clauses "
                "checked on event stamps, deadlock by quiescence after cancelling everything. Evidence, not proof.",
        "design_ref": "7 C16",
        "note": "The connection object is the simulated ClientConn (Close is observed through a hook); dial functions are the harness's.",
        "technique": "deterministic simulation: seeded scheduler + scripted dial faults + stamp-based reference-count oracle",
    },
    "C17": {
        "text": "Seeded exploration of configuration histories, sequential and with concurrent loaders under the seeded scheduler and seeded map "
                "order; handler-call replay is compared with Current() and every accepted load's calls with the exact diff; accept/reject "
                "decisions are checked for linearizability against the revision rule. Evidence, not proof.",
        "design_ref": "7 C17",
        "note": "Trusts the harness's own validity rules (targeth.validate) and canonical serialisation of targets and requests.",
        "technique": "deterministic simulation (seeded scheduler and map order) with replay-equivalence and porcupine oracles",
    },
    "C04": {
        "text": "Seeded search over interleavings of per-target writers with STREAM subscriptions that start at arbitrary scheduling points; the "
                "registration/walk, tree-write/feed and enqueue/dequeue windows are lock or channel boundaries and therefore scheduling points. "
                "Per subscriber: sync discipline, leaves certainly present at subscription time delivered before the sync, per-leaf delivery "
                "order, and at quiescence replay(responses) == matching cache content. Evidence, not proof.",
        "design_ref": "7 C04", "note": _SUB_NOTE,
        "technique": "deterministic simulation: seeded scheduler + response-replay equivalence at quiescence + interval oracles",
    },
    "C05": {
        "text": "ONCE and POLL subscriptions against static caches (exact matching set, one sync per round, successful end) and against concurrent "
                "writers (every returned value was held during the round, every leaf stored throughout is returned, nothing non-matching). "
                "Evidence, not proof.",
        "design_ref": "7 C05", "note": _SUB_NOTE,
        "technique": "deterministic simulation: seeded scheduler + exact snapshot / may-must window oracles",
    },
    "C07": {
        "text": "Generated user x target ACL tables and users whose authorisation cannot be established; every message handed to the stream's Send "
                "is recorded at the simulated transport and none may carry a denied target; denied single-target calls end PermissionDenied and "
                "unauthenticated calls Unauthenticated before any message; allowed targets keep the C04/C05 clauses. Evidence, not proof.",
        "design_ref": "7 C07", "note": _SUB_NOTE,
        "technique": "deterministic simulation with a recording transport (every Send observed) under seeded interleavings",
    },
    "C08": {
        "text": "Flow-control fault: readers that are slow, stall transiently or stall for good with windows of 0..2 messages and send timeouts "
                "of 1..90 virtual seconds. Writers must finish (and, with a frozen scheduler clock, in zero virtual time) whatever readers do; a "
                "send blocked beyond the timeout must have ended the RPC with an error by the time the system is quiescent; deliveries plus "
                "duplicate counts must equal the number of times a leaf was offered. Evidence, not proof.",
        "design_ref": "7 C08", "note": _SUB_NOTE,
        "technique": "deterministic simulation with stalled-peer fault injection on virtual time",
    },
    "C02": {
        "text": "Seeded exploration of notification histories with out-of-order, equal and duplicate timestamps, all future-threshold settings and a "
                "collector clock that is frozen, advancing or jumping both ways; after every operation the result class and the stored content "
                "(paths, values, timestamps) are compared with the reference model. Evidence, not proof.",
        "design_ref": "7 C02", "note": _CACHE_NOTE,
        "technique": "deterministic simulation (simulated, faulted collector clock) with an executable reference model checked operation by operation",
    },
    "C03": {
        "text": "Same histories plus Reset/Remove/Add and notifications that share prefix objects with spare capacity; the recorded change feed is "
                "compared per operation with the model's expected entries, replayed and compared with the stored content after every operation, "
                "inputs are compared byte-wise before/after the call and delivered notifications are re-serialised at the end to catch "
                "retroactive corruption through aliasing. Evidence, not proof.",
        "design_ref": "7 C03", "note": _CACHE_NOTE,
        "technique": "deterministic simulation with feed-replay equivalence and per-operation feed expectations from a reference model",
    },
    "C14": {
        "text": "2..4 targets with overlapping paths, one concurrent stream task per target issuing updates and lifecycle calls under the seeded "
                "scheduler; per-target models (isolation is the oracle: any cross-target effect makes a target disagree with the model of its "
                "own stream), announced deletes must cover what was stored, metadata back to initial after Reset, Remove makes the target "
                "unknown and is announced. Stream termination on Remove is checked by the subscribe harness. In a second phase Reset tasks are raced "
                "against Remove / Add of the same targets, and a Remove is raced against a second goroutine that re-adds the target the moment it "
                "is gone (with a stall fault at the clock seam inside Remove); the change feed must still reproduce the cache. Evidence, not proof.",
        "design_ref": "7 C14", "note": _CACHE_NOTE,
        "technique": "deterministic simulation: seeded scheduler over per-target stream tasks + per-target reference models",
    },
    "C15": {
        "text": "Lifecycle-heavy histories with UpdateMetadata/UpdateSize refresh tasks interleaved by the seeded scheduler; invariants "
                "targetLeaves == stored non-metadata leaves == added - deleted after every operation, counter deltas of every update operation "
                "against the model's classification, latestTimestamp after a final refresh, and the in-simulation race detector on the same runs. "
                "Latency windows are checked by the latency sub-scenarios (samples include zero and negative latencies); what the cache feeds into "
                "the latency statistics is judged at cache level (every exported minimum / maximum is the latency of some update accepted while "
                "the target was synced). Evidence, not proof.",
        "design_ref": "7 C15", "note": _CACHE_NOTE + " Counter deltas are only lower-bounded while a refresh task runs concurrently (its own metadata updates pass through the same counters).",
        "technique": "deterministic simulation: seeded scheduler + conservation-law oracles + in-simulation race detection",
    },
    "C06": {
        "text": "Seeded search over interleavings of register / remove / update tasks on the real matcher with interval (must/may) oracles "
                "written from the statement, plus complete coverage of the finite query x path space to length 4 and the Query-implies-"
                "streamed relation on generated trees. Evidence, not proof (the finite table is covered completely, which the evidence reports).",
        "design_ref": "7 C06",
        "note": "The compatibility relation in matchh.compat is the trusted reading of the statement. The server-level clause (registrations removed when a Subscribe RPC ends) reads the matcher's trie through reflection; if its layout changes the clause is skipped and reported as probe registration-accessor-unavailable.",
        "technique": "deterministic simulation: seeded scheduler + interval oracles + systematic pair table",
    },
    "C11": {
        "text": "Seeded search over interleavings of producers, closer, canceller and the consumer on the real queue; the closed-check->insert "
                "and failed-next->select gaps are scheduling points and the select choice is drawn from the tape. Histories are checked for "
                "linearizability against a FIFO-with-coalescing model, lost wake-ups are detected as simulator quiescence. Evidence, not proof.",
        "design_ref": "7 C11",
        "note": "Trusts porcupine and the sequential model in coalesceh.step; histories capped at ~40 operations.",
        "technique": "deterministic simulation: seeded scheduler + porcupine linearizability + quiescence-based lost-wake-up detection",
    },
    "C09": {
        "text": "Seeded exploration of single-task operation sequences against a prefix-free map model, every result and the full "
                "content compared after each operation, plus differential delete-vs-query agreement on the same state. Evidence, not proof.",
        "design_ref": "7 C09",
        "note": "Trusts the harness model (written from the statement, not from ctree) and the Go toolchain; map iteration order is the only nondeterminism and is permuted by the simulator.",
        "technique": "deterministic simulation (one task, seeded map order) with an executable reference model",
    },
    "C10": {
        "text": "Seeded search over interleavings of 2..16 tasks on the real tree under a cooperative scheduler that pre-empts at every lock "
                "acquisition; histories checked for linearizability (porcupine), query windows, deadlock and panics, and the same runs "
                "repeated under the race detector with the scheduler's own hand-offs hidden from it. Evidence, not proof.",
        "design_ref": "7 C10, 3.6",
        "note": "Interleavings at synchronisation-operation granularity (complete for race-free executions; racy ones are flagged by the in-simulation race detector). Trusts simsync's model of RWMutex (writer preference) and porcupine.",
        "technique": "deterministic simulation: seeded scheduler + porcupine linearizability + in-simulation race detection",
    },
}
