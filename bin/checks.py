# Property table for bin/verif: which harness decides which property and the
# budgets of each tier.

REAL_CORE = ["every package of the repository under test (instrumented copy of the working tree)", "protobuf runtime"]

CHECKS = {
    "C09": {
        "pkg": "ctreeh",
        "quick": {"wall_s": 20},
        "thorough": {"wall_s": 240},
        "rule": "Scenario: one task issuing 1..40 random tree operations (Add/Get/GetLeafValue/GetLeaf/Query/Walk/WalkSorted/"
                "Delete/DeleteConditional/WalkDeleted/Children) over paths of length 0..4 from {a,b,c,*}; every result, the full "
                "content after every operation and delete-vs-query agreement are compared with a prefix-free map model. "
                "Non-trivial: at least 2 operations.",
        "real": ["ctree (instrumented)"],
        "stub": [],
        "assumptions": ["no schedule to explore: the only simulator-owned nondeterminism is map iteration order (DESIGN.md 7 C09)"],
    },
    "C10": {
        "pkg": "ctreeh",
        "quick": {"wall_s": 30, "race_wall_s": 25, "race_max_runs": 1200},
        "thorough": {"wall_s": 420, "race_wall_s": 240, "race_max_runs": 1800},
        "rule": "Scenario: 2..16 tasks with random operation mixes on overlapping paths under a seeded scheduler "
                "(random / sticky / PCT). Oracles: porcupine linearizability of point operations, deletes and the final walk "
                "against the prefix-free map model; present-throughout / absent-throughout windows for queries and walks; "
                "simulator-detected deadlock; panics; data races via the race detector inside the serialised run. "
                "Non-trivial: >= 2 tasks and >= 3 operations.",
        "real": ["ctree (instrumented)"],
        "stub": [],
        "assumptions": ["porcupine histories are capped at ~40 operations; Unknown (timeout) is counted inconclusive"],
    },
}

UNDER_CONSTRUCTION = "check under construction, not claimed yet"
NOT_APPLICABLE = {p: UNDER_CONSTRUCTION for p in ["C%02d" % i for i in range(1, 21)]}
NOT_APPLICABLE["C19"] = ("pure functions of their input (path indexing, value conversion): no schedule, clock, fault, peer or "
                         "interleaving for a simulation to act on; deciding it here would be input generation in simulator "
                         "vocabulary (DESIGN.md 8)")

LEVELS = {
    "C09": {
        "text": "Seeded exploration of single-task operation sequences against a prefix-free map model, every result and the full "
                "content compared after each operation, plus differential delete-vs-query agreement on the same state. Evidence, not proof.",
        "design_ref": "7 C09",
        "note": "Trusts the harness model (written from the statement, not from ctree) and the Go toolchain; map iteration order is the only nondeterminism and is permuted by the simulator.",
        "technique": "deterministic simulation (one task, seeded map order) with an executable reference model",
    },
    "C10": {
        "text": "Seeded search over interleavings of 2..16 tasks on the real tree under a cooperative scheduler that pre-empts at every lock "
                "acquisition; histories checked for linearizability (porcupine), query windows, deadlock and panics, and the same runs "
                "repeated under the race detector with the scheduler's own hand-offs hidden from it. Evidence, not proof.",
        "design_ref": "7 C10, 3.6",
        "note": "Interleavings at synchronisation-operation granularity (complete for race-free executions; racy ones are flagged by the in-simulation race detector). Trusts simsync's model of RWMutex (writer preference) and porcupine.",
        "technique": "deterministic simulation: seeded scheduler + porcupine linearizability + in-simulation race detection",
    },
}
