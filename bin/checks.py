# Property table for bin/verif: which harness decides which property and the
# budgets of each tier.

REAL_CORE = ["every package of the repository under test (instrumented copy of the working tree)", "protobuf runtime"]

CHECKS = {
    "C09": {
        "pkg": "ctreeh",
        "quick": {"wall_s": 20},
        "thorough": {"wall_s": 240},
        "rule": "Scenario: one task issuing 1..40 random tree operations (Add/Get/GetLeafValue/GetLeaf/Query/Walk/WalkSorted/"
                "Delete/DeleteConditional/WalkDeleted/Children) over paths of length 0..4 from {a,b,c,*}; every result, the full "
                "content after every operation and delete-vs-query agreement are compared with a prefix-free map model. "
                "Non-trivial: at least 2 operations.",
        "real": ["ctree (instrumented)"],
        "stub": [],
        "assumptions": ["no schedule to explore: the only simulator-owned nondeterminism is map iteration order (DESIGN.md 7 C09)"],
    },
    "C10": {
        "pkg": "ctreeh",
        "quick": {"wall_s": 30, "race_wall_s": 25, "race_max_runs": 1200},
        "thorough": {"wall_s": 420, "race_wall_s": 240, "race_max_runs": 1800},
        "rule": "Scenario: 2..16 tasks with random operation mixes on overlapping paths under a seeded scheduler "
                "(random / sticky / PCT). Oracles: porcupine linearizability of point operations, deletes and the final walk "
                "against the prefix-free map model; present-throughout / absent-throughout windows for queries and walks; "
                "simulator-detected deadlock; panics; data races via the race detector inside the serialised run. "
                "Non-trivial: >= 2 tasks and >= 3 operations.",
        "real": ["ctree (instrumented)"],
        "stub": [],
        "assumptions": ["porcupine histories are capped at ~40 operations; Unknown (timeout) is counted inconclusive"],
    },
}

CHECKS["C11"] = {
    "pkg": "coalesceh",
    "quick": {"wall_s": 25, "race_wall_s": 15, "race_max_runs": 1200},
    "thorough": {"wall_s": 300, "race_wall_s": 180, "race_max_runs": 1800},
    "rule": "Scenario: 1..4 producer tasks (Insert over 2..4 items, Len, IsClosed; some end with Close, the ONCE pattern), an optional "
            "closer and canceller, one consumer looping Next(ctx), all under the seeded scheduler with select polling order drawn from "
            "the tape. Oracles: porcupine against a FIFO-with-coalescing model, stamp clauses (insert after Close returned is refused, "
            "no context error before cancellation), lost wake-up = consumer still blocked at quiescence with items pending, queue "
            "closed or context cancelled. Non-trivial: a consumer and >= 3 operations.",
    "real": ["coalesce (instrumented)", "context (std)"],
    "stub": [],
    "assumptions": ["an Insert that overlaps Close may be accepted (the statement covers insertions that completed before Close)"],
}

CHECKS["C06"] = {
    "pkg": "matchh",
    "quick": {"wall_s": 25, "race_wall_s": 12, "race_max_runs": 1000},
    "thorough": {"wall_s": 300, "race_wall_s": 120, "race_max_runs": 1800},
    "rule": "Three scenario kinds: (conc) 1..3 clients adding/removing distinct queries and 1..3 updaters issuing Update / UpdateOnce "
            "(multi-path notifications sharing one updated set) concurrently under the seeded scheduler, checked with must/may windows on "
            "invoke/return stamps against the compatibility relation of the statement; (pairs) the finite space of query x update path "
            "pairs of length 0..4 over {a,b,*} walked in chunks of 200 (probe pairs-chunk-NNN per chunk; all chunks are hit in the quick "
            "tier), including silence after remove and the unaffected second client; (tree) every leaf ctree.Query(q) returns is offered to "
            "a subscriber of q. Non-trivial: >= 2 tasks with at least one registration and one update, or any pairs/tree run.",
    "real": ["match (instrumented)", "ctree (instrumented)"],
    "stub": [],
    "assumptions": ["a client never holds the same query twice at once (match keeps a set of clients per query)"],
}

UNDER_CONSTRUCTION = "check under construction, not claimed yet"
NOT_APPLICABLE = {p: UNDER_CONSTRUCTION for p in ["C%02d" % i for i in range(1, 21)]}
NOT_APPLICABLE["C19"] = ("pure functions of their input (path indexing, value conversion): no schedule, clock, fault, peer or "
                         "interleaving for a simulation to act on; deciding it here would be input generation in simulator "
                         "vocabulary (DESIGN.md 8)")

LEVELS = {
    "C06": {
        "text": "Seeded search over interleavings of register / remove / update tasks on the real matcher with interval (must/may) oracles "
                "written from the statement, plus complete coverage of the finite query x path space to length 4 and the Query-implies-"
                "streamed relation on generated trees. Evidence, not proof (the finite table is covered completely, which the evidence reports).",
        "design_ref": "7 C06",
        "note": "The compatibility relation in matchh.compat is the trusted reading of the statement. The server-level clause (registrations removed when a Subscribe RPC ends) is checked by the subscribe harness.",
        "technique": "deterministic simulation: seeded scheduler + interval oracles + systematic pair table",
    },
    "C11": {
        "text": "Seeded search over interleavings of producers, closer, canceller and the consumer on the real queue; the closed-check->insert "
                "and failed-next->select gaps are scheduling points and the select choice is drawn from the tape. Histories are checked for "
                "linearizability against a FIFO-with-coalescing model, lost wake-ups are detected as simulator quiescence. Evidence, not proof.",
        "design_ref": "7 C11",
        "note": "Trusts porcupine and the sequential model in coalesceh.step; histories capped at ~40 operations.",
        "technique": "deterministic simulation: seeded scheduler + porcupine linearizability + quiescence-based lost-wake-up detection",
    },
    "C09": {
        "text": "Seeded exploration of single-task operation sequences against a prefix-free map model, every result and the full "
                "content compared after each operation, plus differential delete-vs-query agreement on the same state. Evidence, not proof.",
        "design_ref": "7 C09",
        "note": "Trusts the harness model (written from the statement, not from ctree) and the Go toolchain; map iteration order is the only nondeterminism and is permuted by the simulator.",
        "technique": "deterministic simulation (one task, seeded map order) with an executable reference model",
    },
    "C10": {
        "text": "Seeded search over interleavings of 2..16 tasks on the real tree under a cooperative scheduler that pre-empts at every lock "
                "acquisition; histories checked for linearizability (porcupine), query windows, deadlock and panics, and the same runs "
                "repeated under the race detector with the scheduler's own hand-offs hidden from it. Evidence, not proof.",
        "design_ref": "7 C10, 3.6",
        "note": "Interleavings at synchronisation-operation granularity (complete for race-free executions; racy ones are flagged by the in-simulation race detector). Trusts simsync's model of RWMutex (writer preference) and porcupine.",
        "technique": "deterministic simulation: seeded scheduler + porcupine linearizability + in-simulation race detection",
    },
}
