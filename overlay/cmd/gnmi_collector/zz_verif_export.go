// Code added to the scratch copy by the verification driver (never to /repo):
// exports of the re-packaged collector main package.
package gnmi_collector

import "context"

// VerifRun runs the shipped collector (flags must have been set with flag.Set).
func VerifRun(ctx context.Context) error { return runCollector(ctx) }
