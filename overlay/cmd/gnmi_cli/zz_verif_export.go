// Code added to the scratch copy by the verification driver (never to /repo):
// exports of the re-packaged gnmi_cli main package.
package gnmi_cli

import (
	"context"
	"crypto/tls"

	"github.com/openconfig/gnmi/cli"
	"github.com/openconfig/gnmi/client"
	gclient "github.com/openconfig/gnmi/client/gnmi"
)

// VerifReset puts every package-level variable back to its initial value
// (flag variables are reset in place: the flag package holds pointers to them).
func VerifReset(display func([]byte)) {
	q = client.Query{TLS: &tls.Config{}}
	cfg = cli.Config{Display: display, PollingInterval: 30e9, Delimiter: "/", DisplayIndent: "  ", DisplayType: "group"}
	cfg.ClientTypes = []string{gclient.Type}
	*queryFlag = nil
	*queryType = client.Once.String()
	*reqProto, *protoFile = "", ""
	*capabilitiesFlag, *getFlag, *setFlag, *setReqFlag, *withUserPass, *withPerRPCAuth, *insecureFlag = false, false, false, false, false, false, false
	*caCert, *clientCert, *clientKey = "", "", ""
	q.Timeout = 30e9
}

// VerifExecuteSubscribe is the Subscribe branch of main (after flag parsing).
func VerifExecuteSubscribe(ctx context.Context) error { return executeSubscribe(ctx) }
