//go:build go1.25

package simrt

import "unsafe"

// Exported race-annotation helpers for simsync / simgrpc.

func RaceAcquire(p unsafe.Pointer)      { raceAcquire(p) }
func RaceRelease(p unsafe.Pointer)      { raceRelease(p) }
func RaceReleaseMerge(p unsafe.Pointer) { raceReleaseMerge(p) }
func RaceDisable()                      { raceDisable() }
func RaceEnable()                       { raceEnable() }
