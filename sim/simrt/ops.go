//go:build go1.25

package simrt

import (
	"cmp"
	"reflect"
	"sort"
)

// ---------------------------------------------------------------- channels
//
// Channel operations stay native (so the race detector sees their real
// happens-before edges and synctest sees durable blocking); the helpers add a
// scheduling point before the operation and re-serialise the goroutine after
// an operation that blocked.

// Recv is `<-c`.
func Recv[T any](c <-chan T) T {
	t := Current()
	if t.PassThrough() {
		return <-c
	}
	t.Yield("recv")
	select {
	case v := <-c:
		return v
	default:
	}
	v := <-c
	t.Yield("recv.wake")
	return v
}

// Recv2 is `v, ok := <-c`.
func Recv2[T any](c <-chan T) (T, bool) {
	t := Current()
	if t.PassThrough() {
		v, ok := <-c
		return v, ok
	}
	t.Yield("recv")
	select {
	case v, ok := <-c:
		return v, ok
	default:
	}
	v, ok := <-c
	t.Yield("recv.wake")
	return v, ok
}

// PreSend / PostBlock bracket a rewritten send statement:
//
//	simrt.PreSend(); select { case c <- v: default: c <- v; simrt.PostBlock() }
func PreSend() { Yield("send") }

// PostBlock re-serialises the caller after a natively blocking operation.
func PostBlock() { Yield("wake") }

// Close is close(c) with a scheduling point before it.
func Close[T any](c chan<- T) {
	Yield("close")
	close(c)
}

// ---------------------------------------------------------------- select
//
// A select statement
//
//	select { case v := <-a: A; case b <- x: B; default: D }
//
// is rewritten to
//
//	switch _c0, _c1 := simrt.CaseRecv(a), simrt.CaseSend(b, x); simrt.Select(true, _c0, _c1) {
//	case 0: v := _c0.Val(); A
//	case 1: B
//	default: D
//	}
//
// Operands are still evaluated once, in source order. Ready cases are polled
// in an order drawn from the order tape (Go picks pseudo-randomly); when none
// is ready the goroutine blocks natively on all of them.

// SelCase is one communication case.
type SelCase interface{ entry() *selEntry }

type selEntry struct {
	c  reflect.SelectCase
	v  reflect.Value
	ok bool
}

func (e *selEntry) entry() *selEntry { return e }

// RecvCase is a receive case with element type T.
type RecvCase[T any] struct{ selEntry }

// CaseRecv builds `case ... <-c`.
func CaseRecv[T any](c <-chan T) *RecvCase[T] {
	r := &RecvCase[T]{}
	r.c = reflect.SelectCase{Dir: reflect.SelectRecv, Chan: reflect.ValueOf(c)}
	return r
}

// Val returns the received value.
func (r *RecvCase[T]) Val() T {
	v, _ := r.Val2()
	return v
}

// Val2 returns the received value and whether the channel was open.
func (r *RecvCase[T]) Val2() (T, bool) {
	var zero T
	if !r.v.IsValid() {
		return zero, r.ok
	}
	x, _ := r.v.Interface().(T)
	return x, r.ok
}

// CaseSend builds `case c <- v`.
func CaseSend(c any, v any) SelCase {
	e := &selEntry{}
	cv := reflect.ValueOf(c)
	e.c = reflect.SelectCase{Dir: reflect.SelectSend, Chan: cv}
	if cv.IsValid() && !cv.IsNil() {
		et := cv.Type().Elem()
		var rv reflect.Value
		if v == nil {
			rv = reflect.Zero(et)
		} else {
			rv = reflect.ValueOf(v)
			if rv.Type() != et {
				rv = rv.Convert(et)
			}
		}
		e.c.Send = rv
	}
	return e
}

func (e *selEntry) try() bool {
	c := e.c
	if !c.Chan.IsValid() || c.Chan.IsNil() {
		return false
	}
	if c.Dir == reflect.SelectRecv {
		v, ok := c.Chan.TryRecv()
		if !v.IsValid() && !ok {
			return false // would block
		}
		e.v, e.ok = v, ok
		return true
	}
	return c.Chan.TrySend(c.Send)
}

func blockForever() {
	ch := make(chan struct{})
	<-ch
}

// Select performs the select and returns the index of the chosen case
// (-1 = default).
func Select(hasDefault bool, cases ...SelCase) int {
	t := Current()
	n := len(cases)
	if t.PassThrough() {
		return nativeSelect(hasDefault, cases)
	}
	t.Yield("select")
	order := make([]int, n)
	for i := range order {
		order[i] = i
	}
	r := t.run
	if r.Cfg.ShuffleSelect && n > 1 {
		permute(r.Ord, order)
	}
	for _, k := range order {
		if cases[k].entry().try() {
			return k
		}
	}
	if hasDefault {
		return -1
	}
	if n == 0 {
		blockForever()
	}
	k := nativeSelect(false, cases)
	t.Yield("select.wake")
	return k
}

func nativeSelect(hasDefault bool, cases []SelCase) int {
	cs := make([]reflect.SelectCase, 0, len(cases)+1)
	for _, c := range cases {
		e := c.entry()
		sc := e.c
		if !sc.Chan.IsValid() || sc.Chan.IsNil() {
			sc = reflect.SelectCase{Dir: reflect.SelectRecv} // never ready
		}
		cs = append(cs, sc)
	}
	if hasDefault {
		cs = append(cs, reflect.SelectCase{Dir: reflect.SelectDefault})
	}
	if len(cs) == 0 {
		blockForever()
	}
	k, v, ok := reflect.Select(cs)
	if k == len(cases) {
		return -1
	}
	e := cases[k].entry()
	e.v, e.ok = v, ok
	return k
}

// permute shuffles xs in place using the tape (identity when every draw is 0).
//
//go:norace
func permute(tp *Tape, xs []int) {
	for i := 0; i < len(xs)-1; i++ {
		j := i + tp.Intn(len(xs)-i)
		xs[i], xs[j] = xs[j], xs[i]
	}
}

// Choice draws a runtime choice in [0,n) from the order tape (fault actors,
// buggify points). Zero is the "nothing unusual" choice.
func Choice(n int) int {
	r := Active()
	if r == nil {
		return 0
	}
	return r.Ord.Intn(n)
}

// ---------------------------------------------------------------- maps

const regCap = 1 << 13

var regKeys [regCap]any
var regN int

// MapReset forgets the first-seen registry (start of every run).
func MapReset() {
	for i := 0; i < regN; i++ {
		regKeys[i] = nil
	}
	regN = 0
}

//go:norace
func regCount() int { return regN }

//go:norace
func regID(k any) int {
	for i := 0; i < regN; i++ {
		if regKeys[i] == k {
			return i
		}
	}
	if regN < regCap {
		regKeys[regN] = k
		regN++
		return regN - 1
	}
	return regCap
}

// RegKey gives k its place in the first-seen order used to iterate maps whose
// keys have no natural order (pointers, interfaces). The instrumenter inserts
// a call before every assignment to such a map, so that the order is the
// order of insertion - decided by the single running task - and never Go's
// random iteration order.
func RegKey[K comparable](k K) {
	if Active() == nil {
		return
	}
	regLock()
	regID(any(k))
	regUnlock()
}

// MapKeys returns the keys of m in a canonical order (sorted for ordered key
// types, first-seen order otherwise) permuted by the order tape. The
// instrumenter rewrites `for k, v := range m` over maps to iterate this
// snapshot, skipping keys deleted meanwhile (as Go does).
func MapKeys[M ~map[K]V, K comparable, V any](m M) []K {
	if len(m) == 0 {
		return nil
	}
	keys := make([]K, 0, len(m))
	for k := range m {
		keys = append(keys, k)
	}
	r := Active()
	if r == nil {
		return keys
	}
	canonical(keys)
	if r.Cfg.ShuffleMaps && len(keys) > 1 {
		idx := make([]int, len(keys))
		for i := range idx {
			idx[i] = i
		}
		permute(r.Ord, idx)
		out := make([]K, len(keys))
		for i, j := range idx {
			out[i] = keys[j]
		}
		return out
	}
	return keys
}

// MapIt iterates a map snapshot (see MapKeys).
type MapIt[K comparable, V any] struct {
	m    map[K]V
	keys []K
	i    int
	k    K
	v    V
}

// MapIter starts an iteration over m.
func MapIter[M ~map[K]V, K comparable, V any](m M) *MapIt[K, V] {
	return &MapIt[K, V]{m: m, keys: MapKeys(m)}
}

// Next advances to the next key that is still present.
func (it *MapIt[K, V]) Next() bool {
	for it.i < len(it.keys) {
		k := it.keys[it.i]
		it.i++
		if v, ok := it.m[k]; ok {
			it.k, it.v = k, v
			return true
		}
	}
	return false
}

// Key returns the current key.
func (it *MapIt[K, V]) Key() K { return it.k }

// Val returns the current value.
func (it *MapIt[K, V]) Val() V { return it.v }

func canonical[K comparable](keys []K) {
	switch ks := any(keys).(type) {
	case []string:
		sort.Strings(ks)
		return
	case []int:
		sort.Ints(ks)
		return
	case []int64:
		sort.Slice(ks, func(i, j int) bool { return ks[i] < ks[j] })
		return
	case []uint64:
		sort.Slice(ks, func(i, j int) bool { return ks[i] < ks[j] })
		return
	case []int32:
		sort.Slice(ks, func(i, j int) bool { return ks[i] < ks[j] })
		return
	case []uint32:
		sort.Slice(ks, func(i, j int) bool { return ks[i] < ks[j] })
		return
	}
	var k0 K
	switch reflect.TypeOf(&k0).Elem().Kind() {
	case reflect.String:
		sort.Slice(keys, func(i, j int) bool {
			return cmp.Less(reflect.ValueOf(keys[i]).String(), reflect.ValueOf(keys[j]).String())
		})
		return
	case reflect.Int, reflect.Int8, reflect.Int16, reflect.Int32, reflect.Int64:
		sort.Slice(keys, func(i, j int) bool {
			return reflect.ValueOf(keys[i]).Int() < reflect.ValueOf(keys[j]).Int()
		})
		return
	case reflect.Uint, reflect.Uint8, reflect.Uint16, reflect.Uint32, reflect.Uint64:
		sort.Slice(keys, func(i, j int) bool {
			return reflect.ValueOf(keys[i]).Uint() < reflect.ValueOf(keys[j]).Uint()
		})
		return
	}
	// Pointers, interfaces, structs: first-seen registry order.
	ids := make([]int, len(keys))
	regLock()
	before := regCount()
	for i, k := range keys {
		ids[i] = regID(any(k))
	}
	fresh := regCount() - before
	regUnlock()
	if fresh >= 2 {
		// keys that were never registered at insertion: their relative order
		// comes from Go's map iteration and is not reproducible
		Probe("machinery:unordered-map-keys")
	}
	sort.Sort(&byID[K]{ids, keys})
}

type byID[K any] struct {
	ids  []int
	keys []K
}

func (b *byID[K]) Len() int           { return len(b.ids) }
func (b *byID[K]) Less(i, j int) bool { return b.ids[i] < b.ids[j] }
func (b *byID[K]) Swap(i, j int) {
	b.ids[i], b.ids[j] = b.ids[j], b.ids[i]
	b.keys[i], b.keys[j] = b.keys[j], b.keys[i]
}

// Only one task runs at a time, so the registry needs no lock for safety; the
// calls exist to keep the race detector from seeing the accesses as
// synchronisation (there is none in the program under test).
func regLock()   { raceDisable() }
func regUnlock() { raceEnable() }
