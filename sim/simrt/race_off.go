//go:build go1.25 && !race

package simrt

import "unsafe"

// RaceEnabled reports whether the binary was built with -race.
const RaceEnabled = false

func raceDisable()                      {}
func raceEnable()                       {}
func raceAcquire(p unsafe.Pointer)      {}
func raceRelease(p unsafe.Pointer)      {}
func raceReleaseMerge(p unsafe.Pointer) {}

// RaceErrors returns the number of race reports so far in this process.
func RaceErrors() int { return 0 }
