//go:build go1.25

// Package simrt is the deterministic simulation runtime: a cooperative,
// seeded scheduler for real goroutines living in one testing/synctest bubble.
//
// Exactly one task of the system under test runs at a time. A task gives up
// control at every synchronisation operation (the instrumenter and the
// simsync/simgrpc packages insert the calls) by parking; the scheduler waits
// for full quiescence of the bubble (synctest.Wait), computes the runnable set
// and chooses the next task from a recorded choice tape. Virtual time comes
// from the synctest bubble and advances only when the scheduler lets it.
//
// Race detector: every hand-off between tasks and the scheduler is performed
// with synchronisation tracking disabled (runtime.RaceDisable) and all
// scheduler state is touched only from //go:norace functions, so that the
// only happens-before edges the detector sees are the program's own.
package simrt

import (
	"fmt"
	"os"
	"runtime"
	"sort"
	"strings"
	"sync/atomic"
	"testing/synctest"
	"time"
	"unsafe"
)

// ---------------------------------------------------------------- PRNG

// Rand is a splitmix64 generator. It is deliberately not math/rand: its state
// is a single word manipulated from norace code.
type Rand struct{ s uint64 }

// NewRand returns a generator seeded with seed.
func NewRand(seed uint64) *Rand { return &Rand{s: seed} }

// Mix derives an independent seed from (a, b).
func Mix(a, b uint64) uint64 {
	z := a + 0x9e3779b97f4a7c15*(b+1)
	z = (z ^ (z >> 30)) * 0xbf58476d1ce4e5b9
	z = (z ^ (z >> 27)) * 0x94d049bb133111eb
	return z ^ (z >> 31)
}

//go:norace
func (r *Rand) Uint64() uint64 {
	r.s += 0x9e3779b97f4a7c15
	z := r.s
	z = (z ^ (z >> 30)) * 0xbf58476d1ce4e5b9
	z = (z ^ (z >> 27)) * 0x94d049bb133111eb
	return z ^ (z >> 31)
}

//go:norace
func (r *Rand) Intn(n int) int {
	if n <= 1 {
		return 0
	}
	return int(r.Uint64() % uint64(n))
}

// Float returns a value in [0,1).
//
//go:norace
func (r *Rand) Float() float64 { return float64(r.Uint64()>>11) / (1 << 53) }

// Chance reports true with probability p.
func (r *Rand) Chance(p float64) bool { return r.Float() < p }

// Pick returns a random element index weighted by w.
func (r *Rand) Pick(w ...int) int {
	t := 0
	for _, x := range w {
		t += x
	}
	if t <= 0 {
		return 0
	}
	v := r.Intn(t)
	for i, x := range w {
		if v < x {
			return i
		}
		v -= x
	}
	return len(w) - 1
}

// ---------------------------------------------------------------- tapes

const tapeCap = 1 << 17

// Tape is a recorded stream of integer choices. In generate mode values come
// from a PRNG; in replay mode from the recorded list (default 0 past its end).
// Storage is a fixed array so that recording never calls into the allocator
// from task context (see package comment).
type Tape struct {
	rng      *Rand
	replay   []int64
	isReplay bool
	pos      int
	rec      []int64 // len fixed = tapeCap; n valid entries
	n        int
	Overflow bool
}

func newTape(seed uint64, replay []int64, isReplay bool) *Tape {
	t := &Tape{rec: make([]int64, tapeCap), replay: replay, isReplay: isReplay}
	if !isReplay {
		t.rng = NewRand(seed)
	}
	return t
}

//go:norace
func (t *Tape) put(v int64) {
	if t.n < len(t.rec) {
		t.rec[t.n] = v
		t.n++
	} else {
		t.Overflow = true
	}
}

// next returns the next replayed value (ok=false past the end or when not
// replaying).
//
//go:norace
func (t *Tape) next() (int64, bool) {
	if !t.isReplay {
		return 0, false
	}
	p := t.pos
	t.pos++
	if p < len(t.replay) {
		return t.replay[p], true
	}
	return 0, true // default
}

// Intn draws a value in [0,n). Draws with n<=1 consume nothing.
//
//go:norace
func (t *Tape) Intn(n int) int {
	if n <= 1 {
		return 0
	}
	var v int
	if t.isReplay {
		x, _ := t.next()
		if x < 0 {
			x = -x
		}
		v = int(x % int64(n))
	} else {
		v = t.rng.Intn(n)
	}
	t.put(int64(v))
	return v
}

// Recorded returns a copy of the consumed prefix.
func (t *Tape) Recorded() []int64 {
	out := make([]int64, t.n)
	copy(out, t.rec[:t.n])
	return out
}

// ---------------------------------------------------------------- config

// Strategy names.
const (
	StratRandom = "random"
	StratSticky = "sticky"
	StratPCT    = "pct"
	StratRR     = "rr"
)

// Config is the per-run simulator configuration (part of the replay file).
type Config struct {
	Strategy   string  `json:"strategy"`
	StickyP    float64 `json:"sticky_p,omitempty"`
	PCTDepth   int     `json:"pct_depth,omitempty"`
	PCTHorizon int     `json:"pct_horizon,omitempty"`
	// ClockP is the probability, per scheduling step, that the scheduler lets
	// virtual time advance by a drawn amount before choosing the next task.
	ClockP float64 `json:"clock_p,omitempty"`
	// ClockMaxLog2 bounds the drawn advance to < 2^ClockMaxLog2 nanoseconds.
	ClockMaxLog2 int `json:"clock_max_log2,omitempty"`
	// TickNs, when > 0, advances virtual time by this much at every step
	// (so that successive Now() readings differ).
	TickNs int64 `json:"tick_ns,omitempty"`
	// IdleNs is how much virtual time may pass with no runnable task before
	// the run is declared quiescent.
	IdleNs int64 `json:"idle_ns,omitempty"`
	// MaxSteps caps scheduling steps per run.
	MaxSteps int64 `json:"max_steps,omitempty"`
	// ShuffleMaps / ShuffleSelect enable tape-driven permutation of map
	// iteration and of select polling order.
	ShuffleMaps   bool `json:"shuffle_maps"`
	ShuffleSelect bool `json:"shuffle_select"`
}

// RandomConfig draws a swarm-style configuration.
func RandomConfig(rng *Rand) Config {
	c := Config{ShuffleMaps: rng.Chance(0.8), ShuffleSelect: rng.Chance(0.8)}
	switch rng.Pick(3, 4, 3) {
	case 0:
		c.Strategy = StratRandom
	case 1:
		c.Strategy = StratSticky
		c.StickyP = []float64{0.5, 0.8, 0.95, 0.99}[rng.Intn(4)]
	case 2:
		c.Strategy = StratPCT
		c.PCTDepth = rng.Intn(4)
		c.PCTHorizon = 50 + rng.Intn(400)
	}
	return c
}

// ---------------------------------------------------------------- run/task

type taskState int32

const (
	stRunning taskState = iota // released by the scheduler; running or natively blocked
	stParked                   // parked at a yield, runnable
	stBlocked                  // parked, waiting for a WaitQ generation change
	stDone
)

// WaitQ is what a task blocked on a simulated lock waits for: a generation
// counter bumped by whoever may have made progress possible.
type WaitQ struct{ gen uint64 }

// Bump marks every waiter of q runnable.
//
//go:norace
func (q *WaitQ) Bump() { q.gen++ }

//go:norace
func (q *WaitQ) load() uint64 { return q.gen }

// Task is one goroutine of the simulated system.
type Task struct {
	ID   int
	Name string
	run  *Run
	wake chan struct{}
	goid uint64
	// exiting is set (by the task itself) once the task unwinds during
	// teardown; simulated primitives are pass-through from then on.
	exiting   bool
	seenPhase int64
	// quiet > 0: scheduling points are skipped (harness observation code);
	// blocking on a held lock still parks.
	quiet int

	// scheduler-owned
	state   taskState
	wq      *WaitQ
	wqGen   uint64
	site    string
	prio    int
	Daemon  bool // not required to finish for AllDone
	steps   int64
	blocked string // description when natively blocked (last site before release)
}

const (
	mYield = iota
	mBlock
	mDone
)

type parkMsg struct {
	t    *Task
	kind int
	site string
	wq   *WaitQ
	gen  uint64
}

// PanicInfo describes a panic that escaped a task.
type PanicInfo struct {
	Task  string
	Value string
	Stack string
}

// Outcome of a scheduling phase.
type Outcome int

const (
	AllDone   Outcome = iota // every non-daemon task finished
	Quiescent                // no runnable task and no timer within IdleNs
	StepLimit                // MaxSteps exhausted
	Stopped                  // stop predicate returned true
)

func (o Outcome) String() string {
	return [...]string{"all-done", "quiescent", "step-limit", "stopped"}[o]
}

// Run is one simulated execution.
type Run struct {
	Cfg   Config
	Sched *Tape // task choices (task id per decision; -1 = default rule)
	Ord   *Tape // select / map order permutations, fault coin flips drawn at run time
	Clk   *Tape // virtual clock advances (ns per decision)

	parkCh chan parkMsg
	tasks  []*Task // scheduler-owned, index = ID
	nextID int32   // atomic
	cur    *Task

	Steps     int64
	traceHash uint64
	Start     time.Time
	aborting  int32 // atomic
	pctChange []int64
	rrNext    int

	Panics []PanicInfo // scheduler-owned (collected from done messages)
	panicC chan PanicInfo

	// StepStamp is the global event counter used to stamp history events.
	stamp int64

	Probes map[string]int64 // harness/scheduler goroutine only
	probeC chan string

	TraceOn bool
	Trace   []string // scheduler-owned

	// phaseAddr/phaseGen: the harness may read what tasks wrote (endAddr) and
	// then let them run again; everything the harness did between two
	// Schedule calls happens-before what tasks do afterwards. The edge is
	// only created at phase boundaries (quiescent points), so race detection
	// between tasks within a phase is unaffected.
	phaseAddr int32
	phaseGen  int64
	endAddr   int32 // race: tasks release-merge here at exit
	// tdSem serialises tasks that unwind during teardown (a native channel:
	// durably blocking inside the bubble and visible to the race detector).
	tdSem chan struct{}
}

var active atomic.Pointer[Run]

// Active returns the current run, or nil.
func Active() *Run { return active.Load() }

// NewRun creates a run and makes it the active one. Must be called from the
// root goroutine of a synctest bubble.
func NewRun(cfg Config, seed uint64, replay *TapeSet) *Run {
	if cfg.IdleNs == 0 {
		cfg.IdleNs = int64(10 * time.Minute)
	}
	if cfg.MaxSteps == 0 {
		cfg.MaxSteps = 20000
	}
	if cfg.ClockMaxLog2 == 0 {
		cfg.ClockMaxLog2 = 36
	}
	r := &Run{
		Cfg:    cfg,
		parkCh: make(chan parkMsg, 4096),
		panicC: make(chan PanicInfo, 256),
		probeC: make(chan string, 1<<14),
		tdSem:  make(chan struct{}, 1),
		Probes: map[string]int64{},
		Start:  time.Now(),
	}
	if replay != nil {
		r.Sched = newTape(0, replay.Sched, true)
		r.Ord = newTape(0, replay.Ord, true)
		r.Clk = newTape(0, replay.Clk, true)
	} else {
		r.Sched = newTape(Mix(seed, 1), nil, false)
		r.Ord = newTape(Mix(seed, 2), nil, false)
		r.Clk = newTape(Mix(seed, 3), nil, false)
	}
	if cfg.Strategy == StratPCT && replay == nil {
		rng := NewRand(Mix(seed, 4))
		h := cfg.PCTHorizon
		if h <= 0 {
			h = 200
		}
		for i := 0; i < cfg.PCTDepth; i++ {
			r.pctChange = append(r.pctChange, int64(rng.Intn(h)))
		}
	}
	goidTableReset()
	active.Store(r)
	return r
}

// TapeSet is the serialisable form of a run's consumed tapes.
type TapeSet struct {
	Sched []int64 `json:"sched"`
	Ord   []int64 `json:"ord"`
	Clk   []int64 `json:"clk"`
}

// Tapes returns what the run consumed so far.
func (r *Run) Tapes() *TapeSet {
	return &TapeSet{Sched: r.Sched.Recorded(), Ord: r.Ord.Recorded(), Clk: r.Clk.Recorded()}
}

// TapeOverflow reports whether any tape exceeded its recording capacity.
func (r *Run) TapeOverflow() bool { return r.Sched.Overflow || r.Ord.Overflow || r.Clk.Overflow }

// Now returns elapsed virtual time since the run started.
func (r *Run) Now() time.Duration { return time.Since(r.Start) }

// TraceHash identifies the sequence of scheduling decisions taken so far.
func (r *Run) TraceHash() uint64 { return r.traceHash }

// Stamp returns a fresh, strictly increasing event number. Only the running
// task (or the scheduler while everything is parked) may call it, which makes
// stamps a total order consistent with real time.
//
//go:norace
func Stamp() int64 {
	r := Active()
	if r == nil {
		return 0
	}
	r.stamp++
	return r.stamp
}

// Probe counts a "this rare condition was reached" event.
func Probe(name string) {
	r := Active()
	if r == nil {
		return
	}
	raceDisable()
	select {
	case r.probeC <- name:
	default:
	}
	raceEnable()
}

func (r *Run) drainProbes() {
	for {
		select {
		case n := <-r.probeC:
			r.Probes[n]++
		default:
			return
		}
	}
}

// ---------------------------------------------------------------- goroutine ids

const goidSlots = 1 << 16

var goidKeys [goidSlots]atomic.Uint64
var goidVals [goidSlots]atomic.Pointer[Task]

func goidTableReset() {
	for i := range goidKeys {
		goidKeys[i].Store(0)
		goidVals[i].Store(nil)
	}
}

func goid() uint64 {
	var buf [40]byte
	n := runtime.Stack(buf[:], false)
	// "goroutine 123 [running]:..."
	var id uint64
	for i := len("goroutine "); i < n; i++ {
		c := buf[i]
		if c < '0' || c > '9' {
			break
		}
		id = id*10 + uint64(c-'0')
	}
	return id
}

func registerTask(id uint64, t *Task) {
	h := (id * 0x9e3779b97f4a7c15) >> 48
	for i := uint64(0); i < goidSlots; i++ {
		s := (h + i) & (goidSlots - 1)
		if goidKeys[s].Load() == 0 {
			goidVals[s].Store(t)
			goidKeys[s].Store(id)
			return
		}
	}
	panic("simrt: goroutine table full")
}

func lookupTask(id uint64) *Task {
	h := (id * 0x9e3779b97f4a7c15) >> 48
	for i := uint64(0); i < goidSlots; i++ {
		s := (h + i) & (goidSlots - 1)
		k := goidKeys[s].Load()
		if k == 0 {
			return nil
		}
		if k == id {
			return goidVals[s].Load()
		}
	}
	return nil
}

// Current returns the task of the calling goroutine, or nil when the caller
// is not a simulated task (no active run, harness goroutine, foreign
// goroutine) or the run is being torn down.
func Current() *Task {
	r := Active()
	if r == nil {
		return nil
	}
	raceDisable()
	t := lookupTask(goid())
	raceEnable()
	if t == nil || t.run != r {
		return nil
	}
	return t
}

// InRun reports whether a run is active (used by simsync to decide between
// real blocking and simulated state for goroutines that are not tasks).
func InRun() bool { return Active() != nil }

// ---------------------------------------------------------------- task side

// Go starts fn as a new task of the active run (or as a plain goroutine when
// no run is active). The instrumenter rewrites every go statement to this.
func Go(fn func()) { GoNamed("", fn) }

// GoNamed is Go with a task name for traces.
func GoNamed(name string, fn func()) *Task {
	r := Active()
	if r == nil || atomic.LoadInt32(&r.aborting) != 0 {
		go fn()
		return nil
	}
	return r.spawn(name, fn, false)
}

// Go starts a harness task.
func (r *Run) Go(name string, fn func()) *Task { return r.spawn(name, fn, false) }

// GoDaemon starts a task that is not required to finish.
func (r *Run) GoDaemon(name string, fn func()) *Task { return r.spawn(name, fn, true) }

func (r *Run) spawn(name string, fn func(), daemon bool) *Task {
	raceDisable()
	id := int(atomic.AddInt32(&r.nextID, 1)) - 1
	raceEnable()
	if name == "" {
		name = "g"
	}
	t := &Task{ID: id, Name: fmt.Sprintf("%s#%d", name, id), run: r, wake: make(chan struct{}, 1), Daemon: daemon}
	raceReleaseMerge(unsafe.Pointer(&r.endAddr))
	go func() {
		raceDisable()
		t.goid = goid()
		registerTask(t.goid, t)
		raceEnable()
		defer func() {
			var pi *PanicInfo
			if v := recover(); v != nil {
				pi = &PanicInfo{Task: t.Name, Value: fmt.Sprint(v), Stack: string(stackTrace())}
			}
			if t.exiting {
				<-r.tdSem
			}
			raceReleaseMerge(unsafe.Pointer(&r.endAddr))
			raceDisable()
			if pi != nil {
				select {
				case r.panicC <- *pi:
				default:
				}
			}
			r.parkCh <- parkMsg{t: t, kind: mDone}
			raceEnable()
		}()
		t.park(parkMsg{t: t, kind: mYield, site: "start"})
		fn()
	}()
	return t
}

func stackTrace() []byte {
	buf := make([]byte, 16<<10)
	n := runtime.Stack(buf, false)
	return buf[:n]
}

// park hands control to the scheduler and waits to be released.
func (t *Task) park(m parkMsg) {
	r := t.run
	// Everything this task did so far happens-before whatever the harness
	// reads after AcquireEnd (tasks never acquire endAddr, so this creates no
	// edges between tasks).
	raceReleaseMerge(unsafe.Pointer(&r.endAddr))
	raceDisable()
	r.parkCh <- m
	<-t.wake
	ab := atomic.LoadInt32(&r.aborting) != 0
	raceEnable()
	if g := r.loadPhase(); g != t.seenPhase {
		t.seenPhase = g
		raceAcquire(unsafe.Pointer(&r.phaseAddr))
	}
	if ab {
		t.abortExit()
	}
}

//go:norace
func (r *Run) loadPhase() int64 { return r.phaseGen }

//go:norace
func (r *Run) bumpPhase() { r.phaseGen++ }

// abortExit unwinds the calling task during teardown. Unwinding tasks are
// serialised through tdSem; while unwinding (deferred functions), simulated
// primitives are pass-through.
func (t *Task) abortExit() {
	if t.exiting {
		return
	}
	t.exiting = true
	t.run.tdSem <- struct{}{}
	runtime.Goexit()
}

// PassThrough reports whether simulated primitives must degrade to plain
// behaviour for the caller: it is not a task, or it is unwinding in teardown.
// A task that is woken during teardown without unwinding yet is ended here.
func (t *Task) PassThrough() bool {
	if t == nil {
		return true
	}
	if atomic.LoadInt32(&t.run.aborting) != 0 {
		t.abortExit() // does not return unless already exiting
		return true
	}
	return false
}

// Yield is a scheduling point: the caller parks and runs again when chosen.
func Yield(site string) {
	if t := Current(); t != nil {
		t.Yield(site)
	}
}

// Yield parks t at site.
func (t *Task) Yield(site string) {
	if t.PassThrough() || t.quiet > 0 {
		return
	}
	t.park(parkMsg{t: t, kind: mYield, site: site})
}

// Block parks t until q's generation changes from its value at the call.
// Callers re-check their condition in a loop.
func (t *Task) Block(q *WaitQ, site string) {
	if t.PassThrough() {
		return
	}
	t.park(parkMsg{t: t, kind: mBlock, site: site, wq: q, gen: q.load()})
}

// Quietly runs f on the calling task without scheduling points: harness
// observation code (snapshots, probes) is not part of the system under test
// and should not multiply the schedule space. Blocking still parks.
func Quietly(f func()) {
	t := Current()
	if t == nil {
		f()
		return
	}
	t.quiet++
	defer func() { t.quiet-- }()
	f()
}

// Aborting reports whether the active run is being torn down.
func Aborting() bool {
	r := Active()
	return r != nil && atomic.LoadInt32(&r.aborting) != 0
}

// Exit ends the calling simulated process/task (log.Exit, os.Exit in cmd/*).
func Exit(code int, msg string) {
	Probe("exit")
	if r := Active(); r != nil {
		raceDisable()
		select {
		case r.panicC <- PanicInfo{Task: "exit", Value: fmt.Sprintf("EXIT(%d): %s", code, msg)}:
		default:
		}
		raceEnable()
	}
	runtime.Goexit()
}

// Sleep is time.Sleep plus the post-wake yield (the instrumenter rewrites
// time.Sleep to this).
func Sleep(d time.Duration) {
	t := Current()
	if t == nil {
		time.Sleep(d)
		return
	}
	t.Yield("sleep")
	time.Sleep(d)
	t.Yield("sleep.wake")
}

// ---------------------------------------------------------------- scheduler

//go:norace
func (r *Run) handle(m parkMsg) {
	t := m.t
	for len(r.tasks) <= t.ID {
		r.tasks = append(r.tasks, nil)
	}
	if r.tasks[t.ID] == nil {
		r.tasks[t.ID] = t
		if r.Cfg.Strategy == StratPCT {
			t.prio = 1000 + r.Sched.Intn(1<<16)
		}
	}
	switch m.kind {
	case mYield:
		t.state = stParked
		t.site = m.site
	case mBlock:
		t.state = stBlocked
		t.site = m.site
		t.wq = m.wq
		t.wqGen = m.gen
	case mDone:
		t.state = stDone
	}
}

func (r *Run) drain() {
	// Park messages arrive in a physically nondeterministic order (woken
	// goroutines overlap for a few instructions); handle them in task-id
	// order so that nothing observable depends on arrival order.
	// The scheduler (and the harness code that runs on its goroutine) may read
	// whatever tasks wrote before parking; tasks never acquire endAddr, so
	// this creates no happens-before edges between tasks.
	raceAcquire(unsafe.Pointer(&r.endAddr))
	var ms []parkMsg
	for {
		select {
		case m := <-r.parkCh:
			ms = append(ms, m)
			continue
		default:
		}
		break
	}
	sort.SliceStable(ms, func(i, j int) bool { return ms[i].t.ID < ms[j].t.ID })
	for _, m := range ms {
		r.handle(m)
	}
	var ps []PanicInfo
	for {
		select {
		case p := <-r.panicC:
			ps = append(ps, p)
			continue
		default:
		}
		break
	}
	sort.SliceStable(ps, func(i, j int) bool { return ps[i].Task < ps[j].Task })
	r.Panics = append(r.Panics, ps...)
}

func (r *Run) handleOrdered(first parkMsg) {
	raceDisable()
	r.parkCh <- first
	raceEnable()
	r.drain()
}

//go:norace
func (r *Run) runnable() []*Task {
	var out []*Task
	for _, t := range r.tasks {
		if t == nil {
			continue
		}
		switch t.state {
		case stParked:
			out = append(out, t)
		case stBlocked:
			if t.wq.load() != t.wqGen {
				out = append(out, t)
			}
		}
	}
	return out
}

// allDone reports whether every non-daemon task has finished.
func (r *Run) allDone() bool {
	for _, t := range r.tasks {
		if t != nil && !t.Daemon && t.state != stDone {
			return false
		}
	}
	return int(atomic.LoadInt32(&r.nextID)) == r.knownTasks()
}

func (r *Run) knownTasks() int {
	n := 0
	for _, t := range r.tasks {
		if t != nil {
			n++
		}
	}
	return n
}

func contains(ts []*Task, t *Task) bool {
	for _, x := range ts {
		if x == t {
			return true
		}
	}
	return false
}

// choose picks the next task among rs (sorted by ID, len>=1).
func (r *Run) choose(rs []*Task, fair bool) *Task {
	def := rs[0]
	if r.cur != nil && contains(rs, r.cur) {
		def = r.cur
	}
	if len(rs) == 1 {
		return rs[0]
	}
	if fair {
		// round-robin, no tape.
		for i := 0; i < len(rs); i++ {
			if rs[i].ID >= r.rrNext {
				r.rrNext = rs[i].ID + 1
				return rs[i]
			}
		}
		r.rrNext = rs[0].ID + 1
		return rs[0]
	}
	if r.Sched.isReplay {
		v, _ := r.Sched.next()
		pick := def
		if v > 0 {
			for _, t := range rs {
				if int64(t.ID)+1 == v {
					pick = t
				}
			}
		}
		r.Sched.put(int64(pick.ID) + 1)
		return pick
	}
	var pick *Task
	switch r.Cfg.Strategy {
	case StratSticky:
		if def == r.cur && r.Sched.rng.Float() < r.Cfg.StickyP {
			pick = def
		} else {
			pick = rs[r.Sched.rng.Intn(len(rs))]
		}
	case StratPCT:
		for _, c := range r.pctChange {
			if c == r.Steps && r.cur != nil {
				r.cur.prio = int(c) % 1000 // drop below all initial priorities
			}
		}
		pick = rs[0]
		for _, t := range rs {
			if t.prio > pick.prio {
				pick = t
			}
		}
	case StratRR:
		return r.choose(rs, true)
	default:
		pick = rs[r.Sched.rng.Intn(len(rs))]
	}
	// Record decisions as task ids (+1; 0 = default rule) so that the
	// replay does not depend on the strategy and shrinks towards "no switch".
	if pick == def {
		r.Sched.put(0)
	} else {
		r.Sched.put(int64(pick.ID) + 1)
	}
	return pick
}

func (r *Run) hashStep(t *Task) {
	h := r.traceHash
	if h == 0 {
		h = 1469598103934665603
	}
	h = (h ^ uint64(t.ID+1)) * 1099511628211
	for i := 0; i < len(t.site); i++ {
		h = (h ^ uint64(t.site[i])) * 1099511628211
	}
	r.traceHash = h
}

// clockAdvance lets virtual time move according to the clock policy.
func (r *Run) clockAdvance() {
	var d int64
	if r.Clk.isReplay {
		d, _ = r.Clk.next()
		if d < 0 {
			d = 0
		}
		r.Clk.put(d)
	} else {
		d = r.Cfg.TickNs
		if r.Cfg.ClockP > 0 && r.Clk.rng.Float() < r.Cfg.ClockP {
			d += int64(1) << uint(r.Clk.rng.Intn(r.Cfg.ClockMaxLog2))
			d += int64(r.Clk.rng.Intn(1000))
		}
		r.Clk.put(d)
	}
	if d > 0 {
		time.Sleep(time.Duration(d))
		synctest.Wait()
		r.drain()
	}
}

// Sched runs tasks until every non-daemon task is done, the system is
// quiescent, the step budget is exhausted, or stop (if non-nil) returns true
// (evaluated between steps, with every task parked or blocked).
// fair selects round-robin scheduling without consuming the tape (drain phases).
func (r *Run) Schedule(fair bool, stop func() bool) Outcome {
	clocked := r.Cfg.TickNs > 0 || r.Cfg.ClockP > 0 || r.Clk.isReplay
	raceRelease(unsafe.Pointer(&r.phaseAddr))
	r.bumpPhase()
	for {
		synctest.Wait()
		r.drain()
		r.drainProbes()
		if stop != nil && stop() {
			return Stopped
		}
		if r.Steps >= r.Cfg.MaxSteps {
			return StepLimit
		}
		if clocked && !fair {
			r.clockAdvance()
		}
		if debugWait {
			r.checkQuiescent()
		}
		rs := r.runnable()
		if len(rs) == 0 {
			if r.allDone() {
				return AllDone
			}
			// Nothing runnable: let virtual time run up to IdleNs for a timer
			// to wake somebody.
			tm := time.NewTimer(time.Duration(r.Cfg.IdleNs))
			select {
			case m := <-r.parkCh:
				tm.Stop()
				// Wait for everybody woken at this instant, then handle in order.
				synctest.Wait()
				r.handleOrdered(m)
				continue
			case <-tm.C:
				synctest.Wait()
				r.drain()
				if len(r.runnable()) > 0 {
					continue
				}
				if r.allDone() {
					return AllDone
				}
				return Quiescent
			}
		}
		t := r.choose(rs, fair)
		r.Steps++
		t.steps++
		r.hashStep(t)
		if r.TraceOn {
			r.Trace = append(r.Trace, fmt.Sprintf("%d %s @%s t=%v", r.Steps, t.Name, t.site, r.Now()))

		}
		r.cur = t
		t.state = stRunning
		t.blocked = t.site
		raceDisable()
		t.wake <- struct{}{}
		raceEnable()
	}
}

// Unfinished returns the names (with last known site) of non-daemon tasks that
// have not finished. Call only between Schedule calls.
func (r *Run) Unfinished() []string {
	var out []string
	for _, t := range r.tasks {
		if t != nil && !t.Daemon && t.state != stDone {
			out = append(out, t.describe())
		}
	}
	return out
}

// TaskDone reports whether t has finished.
func (r *Run) TaskDone(t *Task) bool { return t.state == stDone }

// TaskState describes t's scheduler-visible state (between Schedule calls).
func (r *Run) TaskState(t *Task) string { return t.describe() }

func (t *Task) describe() string {
	st := "?"
	switch t.state {
	case stRunning:
		st = "blocked-native(after " + t.blocked + ")"
	case stParked:
		st = "runnable@" + t.site
	case stBlocked:
		st = "blocked-lock@" + t.site
	case stDone:
		st = "done"
	}
	return t.Name + ":" + st
}

// BlockedOnLocks lists tasks that are waiting for a simulated lock.
func (r *Run) BlockedOnLocks() []string {
	var out []string
	for _, t := range r.tasks {
		if t != nil && t.state == stBlocked && t.wq.load() == t.wqGen {
			out = append(out, t.describe())
		}
	}
	return out
}

// AcquireEnd makes everything finished tasks did happen-before the caller
// (for the race detector). Call before reading results written by tasks.
func (r *Run) AcquireEnd() { raceAcquire(unsafe.Pointer(&r.endAddr)) }

// Teardown ends the run: every parked task is released in turn with the abort
// flag set, which makes it unwind (deferred functions run; simulated
// primitives degrade to pass-through). Returns the number of goroutines of
// the run that could not be ended (natively blocked forever).
func (r *Run) Teardown() (leaked int) {
	synctest.Wait()
	r.drain()
	atomic.StoreInt32(&r.aborting, 1)
	for round := 0; round < 4; round++ {
		progress := false
		for _, t := range r.tasks {
			if t == nil || (t.state != stParked && t.state != stBlocked) {
				continue
			}
			t.state = stRunning
			raceDisable()
			t.wake <- struct{}{}
			raceEnable()
			synctest.Wait()
			progress = true
		}
		r.drain()
		if !progress {
			break
		}
	}
	// Let timers of natively blocked goroutines fire (bounded).
	time.Sleep(time.Duration(r.Cfg.IdleNs))
	synctest.Wait()
	r.drain()
	for _, t := range r.tasks {
		if t != nil && t.state != stDone {
			leaked++
		}
	}
	r.drainProbes()
	active.CompareAndSwap(r, nil)
	// Goroutines that could not be ended keep this Run reachable for the rest
	// of the process: drop what is large (3 MB of tape buffers per run).
	r.Sched.rec, r.Ord.rec, r.Clk.rec = nil, nil, nil
	r.Trace = nil
	return leaked
}

// NumTasks returns how many tasks were created.
func (r *Run) NumTasks() int { return int(atomic.LoadInt32(&r.nextID)) }

// Summary renders the final task table (diagnostics).
func (r *Run) Summary() string {
	var sb strings.Builder
	ts := append([]*Task(nil), r.tasks...)
	sort.Slice(ts, func(i, j int) bool { return ts[i] != nil && ts[j] != nil && ts[i].ID < ts[j].ID })
	for _, t := range ts {
		if t != nil {
			sb.WriteString(t.describe())
			sb.WriteString("; ")
		}
	}
	return sb.String()
}

var debugWait = os.Getenv("VERIF_DEBUG_WAIT") != ""

// checkQuiescent (debug aid): after synctest.Wait every task that is not
// parked must be blocked, never running or runnable.
func (r *Run) checkQuiescent() {
	buf := make([]byte, 1<<20)
	n := runtime.Stack(buf, true)
	txt := string(buf[:n])
	for _, t := range r.tasks {
		if t == nil || t.state != stRunning {
			continue
		}
		hdr := fmt.Sprintf("goroutine %d [", t.goid)
		i := strings.Index(txt, hdr)
		if i < 0 {
			continue
		}
		st := txt[i+len(hdr):]
		if j := strings.IndexAny(st, "],"); j >= 0 {
			st = st[:j]
		}
		if st == "running" || st == "runnable" {
			k := strings.Index(txt[i:], "\n\n")
			if k < 0 {
				k = len(txt) - i
			}
			fmt.Fprintf(os.Stderr, "WAIT-EARLY step=%d task=%s status=%s\n%s\n", r.Steps, t.Name, st, txt[i:i+k])
		}
	}
}
