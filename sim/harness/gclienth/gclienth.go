// Package gclienth is the second C18 harness: the client library's
// ReconnectClient over the repository's real gNMI transport
// (client/gnmi, re-targeted at the simulated gRPC) against a scripted gNMI
// server with scripted dial outcomes (refused, delayed, black-holed), stream
// scripts (messages, error, end of stream, silence) and a Close / cancel at
// a generated instant. clienth decides the same clauses over a scripted
// transport; this one adds what only the real transport does: the dial that
// must honour the subscription context, the gRPC stream, the conversion of
// responses into notifications.
package gclienth

import (
	"context"
	"encoding/json"
	"fmt"
	"hash/fnv"
	"sort"
	"strings"
	"sync/atomic"
	"time"

	"github.com/openconfig/gnmi/client"
	gclient "github.com/openconfig/gnmi/client/gnmi"
	gpb "github.com/openconfig/gnmi/proto/gnmi"
	"github.com/openconfig/gnmi/zzverif/harness/common"
	"github.com/openconfig/gnmi/zzverif/simgrpc"
	"github.com/openconfig/gnmi/zzverif/simnet"
	"github.com/openconfig/gnmi/zzverif/simrt"
	"google.golang.org/grpc/codes"
	"google.golang.org/grpc/status"
)

// Msg is one scripted response: upd (one notification with N updates) | sync.
type Msg struct {
	K       string `json:"k"`
	N       int    `json:"n,omitempty"`
	DelayNs int64  `json:"delay_ns,omitempty"`
}

// Session is one scripted stream.
type Session struct {
	Msgs []Msg  `json:"msgs"`
	End  string `json:"end"` // err | eof | silence
}

// DialOut is one scripted dial outcome: ok | err | block (black hole).
type DialOut struct {
	Kind    string `json:"kind"`
	DelayNs int64  `json:"delay_ns,omitempty"`
}

type Scenario struct {
	Sessions []Session `json:"sessions"` // cycled
	Dials    []DialOut `json:"dials"`    // cycled
	Cache    bool      `json:"cache"`
	BaseNs   int64     `json:"retry_base_ns"`
	MaxNs    int64     `json:"retry_max_ns"`
	QToNs    int64     `json:"query_timeout_ns"` // Query.Timeout: bounds one connection attempt
	Window   int       `json:"window"`
	// Actor: after WaitNs (or WaitSteps scheduling points) close / cancel.
	WaitNs      int64  `json:"wait_ns,omitempty"`
	WaitSteps   int    `json:"wait_steps,omitempty"`
	Action      string `json:"action"` // close | cancel | none
	CloseBefore bool   `json:"close_before,omitempty"`
}

type H struct{}

func (H) Name() string { return "gnmiclient" }

func (H) Decode(b []byte) (any, error) {
	s := &Scenario{}
	return s, json.Unmarshal(b, s)
}

func (H) Generate(rng *simrt.Rand, prop, tier string) (any, simrt.Config) {
	cfg := simrt.RandomConfig(rng)
	cfg.MaxSteps = 40000
	cfg.IdleNs = int64(3 * time.Hour)
	sc := &Scenario{Cache: rng.Chance(0.5), Window: []int{0, 1, 8, 64}[rng.Intn(4)]}
	sc.BaseNs = int64(time.Duration(50+rng.Intn(2000)) * time.Millisecond)
	sc.MaxNs = sc.BaseNs * int64(1+rng.Intn(20))
	sc.QToNs = int64(time.Duration(5+rng.Intn(120)) * time.Second)
	for k := 1 + rng.Intn(3); k > 0; k-- {
		var se Session
		for i := rng.Intn(5); i > 0; i-- {
			m := Msg{K: "upd", N: 1 + rng.Intn(3)}
			if rng.Chance(0.25) {
				m.K = "sync"
			}
			if rng.Chance(0.3) {
				m.DelayNs = int64(time.Duration(1+rng.Intn(3000)) * time.Millisecond)
			}
			se.Msgs = append(se.Msgs, m)
		}
		se.End = []string{"err", "err", "eof", "silence", "silence"}[rng.Intn(5)]
		sc.Sessions = append(sc.Sessions, se)
	}
	for k := 1 + rng.Intn(3); k > 0; k-- {
		d := DialOut{Kind: []string{"ok", "ok", "ok", "err", "block"}[rng.Intn(5)]}
		if rng.Chance(0.5) {
			d.DelayNs = int64(time.Duration(1+rng.Intn(5000)) * time.Millisecond)
		}
		sc.Dials = append(sc.Dials, d)
	}
	sc.Action = []string{"close", "close", "close", "cancel", "none", "deadline"}[rng.Intn(6)]
	switch rng.Pick(1, 3, 3, 3) {
	case 0:
		sc.CloseBefore = sc.Action == "close"
	case 1:
		sc.WaitSteps = rng.Intn(80)
	case 2:
		sc.WaitNs = int64(time.Duration(rng.Intn(6000)) * time.Millisecond)
	case 3:
		sc.WaitNs = int64(rng.Intn(40)) * sc.MaxNs / 2
	}
	if sc.Action == "deadline" {
		// the caller's context carries a deadline that expires at WaitNs
		sc.CloseBefore, sc.WaitSteps = false, 0
		if sc.WaitNs <= 0 {
			sc.WaitNs = int64(time.Duration(1+rng.Intn(4000)) * time.Millisecond)
		}
	}
	return sc, cfg
}

func (H) Shrinks(s any) []any {
	sc := s.(*Scenario)
	var out []any
	clone := func() *Scenario {
		b, _ := json.Marshal(sc)
		c := &Scenario{}
		json.Unmarshal(b, c)
		return c
	}
	for i := range sc.Sessions {
		if len(sc.Sessions) > 1 {
			c := clone()
			c.Sessions = append(c.Sessions[:i], c.Sessions[i+1:]...)
			out = append(out, c)
		}
		for j := range sc.Sessions[i].Msgs {
			c := clone()
			c.Sessions[i].Msgs = append(c.Sessions[i].Msgs[:j], c.Sessions[i].Msgs[j+1:]...)
			out = append(out, c)
			if sc.Sessions[i].Msgs[j].DelayNs > 0 {
				c := clone()
				c.Sessions[i].Msgs[j].DelayNs = 0
				out = append(out, c)
			}
		}
	}
	for i := range sc.Dials {
		if len(sc.Dials) > 1 {
			c := clone()
			c.Dials = append(c.Dials[:i], c.Dials[i+1:]...)
			out = append(out, c)
		}
		if sc.Dials[i].DelayNs > 0 {
			c := clone()
			c.Dials[i].DelayNs = 0
			out = append(out, c)
		}
	}
	if sc.WaitNs > 0 {
		c := clone()
		c.WaitNs /= 2
		out = append(out, c)
	}
	if sc.WaitSteps > 0 {
		c := clone()
		c.WaitSteps /= 2
		out = append(out, c)
	}
	if sc.Cache {
		c := clone()
		c.Cache = false
		out = append(out, c)
	}
	return out
}

// ---------------------------------------------------------------- records

type ev struct {
	stamp int64
	ns    int64
	kind  string // dial session-start sent session-end app disconnect reset
	sess  int
	id    string
}

const maxT = 1 << 12

type world struct {
	sc    *Scenario
	x     *common.Exec
	evs   [][]ev
	nSess atomic.Int64
	nDial atomic.Int64
}

func tid() int {
	if t := simrt.Current(); t != nil && t.ID < maxT-1 {
		return t.ID
	}
	return maxT - 1
}

func (w *world) rec(kind string, sess int, id string) {
	t := tid()
	w.evs[t] = append(w.evs[t], ev{stamp: simrt.Stamp(), ns: int64(w.x.R.Now()), kind: kind, sess: sess, id: id})
}

type server struct {
	gpb.UnimplementedGNMIServer
	w *world
}

func (s *server) Subscribe(stream gpb.GNMI_SubscribeServer) error {
	if _, err := stream.Recv(); err != nil {
		return err
	}
	k := int(s.w.nSess.Add(1)) - 1
	se := s.w.sc.Sessions[k%len(s.w.sc.Sessions)]
	s.w.rec("session-start", k, "")
	defer s.w.rec("session-end", k, "")
	for i, m := range se.Msgs {
		if m.DelayNs > 0 {
			tm := time.NewTimer(time.Duration(m.DelayNs))
			if simrt.Select(false, simrt.CaseRecv(tm.C), simrt.CaseRecv(stream.Context().Done())) == 1 {
				tm.Stop()
				return stream.Context().Err()
			}
		}
		var resp *gpb.SubscribeResponse
		ids := ""
		if m.K == "sync" {
			resp = &gpb.SubscribeResponse{Response: &gpb.SubscribeResponse_SyncResponse{SyncResponse: true}}
			ids = "sync"
		} else {
			n := &gpb.Notification{Timestamp: int64(1000*k + i + 1), Prefix: &gpb.Path{Target: "dev"}}
			var parts []string
			for u := 0; u < m.N; u++ {
				id := fmt.Sprintf("s%d.m%d.%d", k, i, u)
				parts = append(parts, id)
				n.Update = append(n.Update, &gpb.Update{Path: &gpb.Path{Elem: []*gpb.PathElem{{Name: "x"}, {Name: fmt.Sprint(i)}, {Name: fmt.Sprint(u)}}},
					Val: &gpb.TypedValue{Value: &gpb.TypedValue_StringVal{StringVal: id}}})
			}
			resp = &gpb.SubscribeResponse{Response: &gpb.SubscribeResponse_Update{Update: n}}
			ids = strings.Join(parts, ",")
		}
		if err := stream.Send(resp); err != nil {
			return err
		}
		s.w.rec("sent", k, ids)
	}
	switch se.End {
	case "err":
		return status.Error(codes.Unavailable, "scripted failure")
	case "eof":
		return nil
	}
	simrt.Recv(stream.Context().Done())
	return stream.Context().Err()
}

// ---------------------------------------------------------------- execution

func (H) Execute(x *common.Exec, s any) {
	sc := s.(*Scenario)
	w := &world{sc: sc, x: x, evs: make([][]ev, maxT)}
	oldB, oldM, oldR := client.RetryBaseDelay, client.RetryMaxDelay, client.RetryRandomization
	client.RetryBaseDelay, client.RetryMaxDelay, client.RetryRandomization = time.Duration(sc.BaseNs), time.Duration(sc.MaxNs), 0
	defer func() { client.RetryBaseDelay, client.RetryMaxDelay, client.RetryRandomization = oldB, oldM, oldR }()
	const addr = "10.1.0.1:9339"
	simgrpc.SetHooks(&simgrpc.Hooks{Window: sc.Window, Dial: func(ctx context.Context, target string) (time.Duration, error) {
		k := int(w.nDial.Add(1)) - 1
		d := sc.Dials[k%len(sc.Dials)]
		w.rec("dial", k, d.Kind)
		switch d.Kind {
		case "err": // refused after the delay; simgrpc waits for the delay or the dial context
			return time.Duration(d.DelayNs), fmt.Errorf("connection refused")
		case "block":
			simrt.Recv(ctx.Done())
			return 0, ctx.Err()
		}
		return time.Duration(d.DelayNs), nil
	}})
	gs := simgrpc.NewServer()
	gpb.RegisterGNMIServer(gs, &server{w: w})
	lis, err := simnet.Listen("tcp", addr)
	if err != nil {
		x.Violate("C18/setup", "%v", err)
		return
	}
	x.R.GoDaemon("serve", func() { gs.Serve(lis) })
	defer func() { // let every goroutine of this run end (they are blocked natively, not parked)
		gs.Stop()
		lis.Close()
	}()

	delivered := make([][]string, maxT)
	appStamp := make([][]int64, maxT)
	q := client.Query{Addrs: []string{addr}, Target: "dev", Queries: []client.Path{{"*"}}, Type: client.Stream, Timeout: time.Duration(sc.QToNs),
		NotificationHandler: func(n client.Notification) error {
			t := tid()
			id := ""
			switch v := n.(type) {
			case client.Update:
				id = fmt.Sprint(v.Val)
			case client.Sync:
				id = "sync"
			case client.Connected:
				id = "connected"
			default:
				id = fmt.Sprintf("%T", n)
			}
			delivered[t] = append(delivered[t], id)
			appStamp[t] = append(appStamp[t], simrt.Stamp())
			return nil
		}}
	var base client.Client
	if sc.Cache {
		base = client.New()
	} else {
		base = &client.BaseClient{}
	}
	c := client.Reconnect(base, func() { w.rec("disconnect", -1, "") }, func() { w.rec("reset", -1, "") })
	ctx, cancel := context.WithCancel(context.Background())
	if sc.Action == "deadline" {
		ctx, cancel = context.WithTimeout(context.Background(), time.Duration(sc.WaitNs))
	}
	defer cancel()
	var subErr, closeErr error
	var subRet, subRetNs, closeInv, closeInvNs, closeRet int64
	var subDone, closeDone bool
	doClose := func() {
		closeInv, closeInvNs = simrt.Stamp(), int64(x.R.Now())
		switch sc.Action {
		case "cancel":
			cancel()
		case "deadline":
			// the deadline expires at this very instant; nothing to call
		default:
			closeErr = c.Close()
		}
		closeRet = simrt.Stamp()
		closeDone = true
	}
	if sc.CloseBefore {
		x.R.Go("close-before", doClose)
		x.R.Schedule(true, nil)
		x.R.AcquireEnd()
	}
	x.R.Go("subscribe", func() {
		subErr = c.Subscribe(ctx, q, gclient.Type)
		subRet, subRetNs = simrt.Stamp(), int64(x.R.Now())
		subDone = true
	})
	var actor *simrt.Task
	if sc.Action != "none" && !sc.CloseBefore {
		actor = x.R.Go("actor", func() {
			for i := 0; i < sc.WaitSteps; i++ {
				simrt.Yield("wait")
			}
			if sc.WaitNs > 0 {
				simrt.Sleep(time.Duration(sc.WaitNs))
			}
			doClose()
		})
	}
	horizon := time.Duration(sc.WaitNs) + time.Duration(3*sc.MaxNs) + 2*time.Duration(sc.QToNs) + 10*time.Second
	out := x.R.Schedule(false, func() bool { return x.R.Now() > horizon || x.R.Steps > 25000 })
	x.R.AcquireEnd()
	if out == simrt.StepLimit {
		x.Inconclusive = "step-limit"
		return
	}
	if out == simrt.Stopped && actor != nil && closeInv == 0 {
		x.Inconclusive = "actor-did-not-act-within-budget"
		return
	}
	nowNs := int64(x.R.Now())
	// ---- records
	var evs []ev
	for _, e := range w.evs {
		evs = append(evs, e...)
	}
	sort.Slice(evs, func(i, j int) bool { return evs[i].stamp < evs[j].stamp })
	dump := func() string {
		var sb strings.Builder
		for _, e := range evs {
			fmt.Fprintf(&sb, "  [%d] t=%v %s #%d %s\n", e.stamp, time.Duration(e.ns), e.kind, e.sess, e.id)
		}
		fmt.Fprintf(&sb, "  Subscribe returned=%v at %d (t=%v) err=%v; %s invoked at %d (t=%v) returned=%v at %d err=%v; now t=%v\n", subDone, subRet, time.Duration(subRetNs), subErr, sc.Action, closeInv, time.Duration(closeInvNs), closeDone, closeRet, closeErr, time.Duration(nowNs))
		return sb.String()
	}
	x.NonTrivial = len(evs) > 2
	hh := fnv.New64a()
	for _, e := range evs {
		fmt.Fprint(hh, e.kind, e.sess)
	}
	x.StateHash = hh.Sum64()
	// faults that fired
	if closeInv != 0 {
		phase := "before-first-attempt"
		for _, e := range evs {
			if e.stamp > closeInv {
				break
			}
			switch e.kind {
			case "dial":
				phase = "during-dial"
			case "session-start", "sent", "app":
				phase = "while-streaming"
			case "disconnect":
				phase = "during-backoff"
			case "reset":
				phase = "before-reconnect-attempt"
			}
		}
		x.Fault(sc.Action + ":" + phase)
	}
	for _, e := range evs {
		switch e.kind {
		case "dial":
			x.Fault("dial:" + e.id)
		case "session-start":
			x.Fault("stream-script-ends:" + sc.Sessions[e.sess%len(sc.Sessions)].End)
		}
	}

	closing := sc.Action != "none"
	if closing {
		x.Oblige(2)
		late := func(what string) bool {
			// still pending: a violation once more than the current back-off interval has passed
			return nowNs-closeInvNs > sc.MaxNs+int64(time.Millisecond)
		}
		if !closeDone {
			if out == simrt.Quiescent || late("close") {
				x.Violate("C18/close-never-returned", "%s has not returned %v after it was invoked (back-off max %v; outcome %v: %s)\n%s", sc.Action, time.Duration(nowNs-closeInvNs), time.Duration(sc.MaxNs), out, x.R.Summary(), dump())
			}
			return
		}
		if !subDone {
			if out == simrt.Quiescent || late("subscribe") {
				x.Violate("C18/subscribe-never-returned", "Subscribe has not returned %v after %s was invoked (back-off max %v; outcome %v: %s)\n%s", time.Duration(nowNs-closeInvNs), sc.Action, time.Duration(sc.MaxNs), out, x.R.Summary(), dump())
			}
			return
		}
		if !sc.CloseBefore && subRet > closeInv && subRetNs-closeInvNs > sc.MaxNs+int64(time.Millisecond) {
			x.Violate("C18/subscribe-returned-late", "Subscribe returned %v after %s was invoked; the back-off maximum is %v (a connection attempt must end with its context, not with the %v query timeout)\n%s", time.Duration(subRetNs-closeInvNs), sc.Action, time.Duration(sc.MaxNs), time.Duration(sc.QToNs), dump())
			return
		}
	} else {
		x.Oblige(1)
		if subDone {
			x.Violate("C18/reconnect-gave-up", "a reconnecting client that was never closed returned from Subscribe: %v\n%s", subErr, dump())
			return
		}
		if out == simrt.Quiescent {
			// legitimate only inside a silent stream: the last session that started has not ended
			open := map[int]bool{}
			for _, e := range evs {
				switch e.kind {
				case "session-start":
					open[e.sess] = true
				case "session-end":
					delete(open, e.sess)
				}
			}
			if len(open) == 0 {
				x.Violate("C18/reconnect-stalled", "a reconnecting client that was never closed stopped retrying: %s\n%s", x.R.Summary(), dump())
				return
			}
		}
	}
	// ---- callbacks: disconnect / reset alternate, reset never first
	x.Oblige(1)
	state := "idle"
	for _, e := range evs {
		switch e.kind {
		case "disconnect":
			if state == "disconnected" {
				x.Violate("C18/retry-without-reset", "two disconnect callbacks (second at %d) without the reset callback between them\n%s", e.stamp, dump())
				return
			}
			state = "disconnected"
		case "reset":
			if state != "disconnected" {
				x.Violate("C18/reset-without-disconnect", "reset callback at %d without a preceding disconnect\n%s", e.stamp, dump())
				return
			}
			state = "idle"
			if closeDone && sc.Action == "close" && e.stamp > closeRet {
				x.Violate("C18/retry-after-close-returned", "reset callback (a new attempt) at %d after Close had returned at %d\n%s", e.stamp, closeRet, dump())
				return
			}
		}
	}
	// ---- what the application saw: per stream Connected first, then the
	// stream's notifications in the order the server sent them (a prefix:
	// the stream may have been cut), nothing else.
	type pair struct {
		st int64
		id string
	}
	var ps []pair
	for t := range delivered {
		for k := range delivered[t] {
			ps = append(ps, pair{appStamp[t][k], delivered[t][k]})
		}
	}
	sort.Slice(ps, func(i, j int) bool { return ps[i].st < ps[j].st })
	sentBy := map[int][]string{}
	var sessOrder []int
	for _, e := range evs {
		if e.kind == "session-start" {
			sessOrder = append(sessOrder, e.sess)
		}
		if e.kind == "sent" {
			sentBy[e.sess] = append(sentBy[e.sess], strings.Split(e.id, ",")...)
		}
	}
	x.Oblige(1)
	var groups [][]string // per Connected
	for _, p := range ps {
		if p.id == "connected" {
			groups = append(groups, nil)
			continue
		}
		if len(groups) == 0 {
			x.Violate("C18/notification-before-connected", "the application saw %q before any Connected notification\n%s", p.id, dump())
			return
		}
		groups[len(groups)-1] = append(groups[len(groups)-1], p.id)
	}
	si := 0
	for _, g := range groups {
		// match this group to the next session (in start order) whose sent list it is a prefix of
		matched := false
		for si < len(sessOrder) {
			want := sentBy[sessOrder[si]]
			si++
			if len(g) <= len(want) && strings.Join(g, ",") == strings.Join(want[:len(g)], ",") {
				matched = true
				break
			}
			// a stream the client never read from (nothing sent, or abandoned
			// before its first message) produces no Connected: try the next one
		}
		if !matched {
			x.Violate("C18/notification-order", "after a Connected the application saw %v, which is not a prefix of what any later stream sent (streams in order: %v)\n%s", g, sentBy, dump())
			return
		}
	}
	// ---- after Close returned: at most the notifications of one further message
	if closeDone && sc.Action == "close" {
		x.Oblige(1)
		n := 0
		for _, p := range ps {
			if p.st > closeRet && p.id != "connected" {
				n++
			}
		}
		if n > 3 { // one message carries at most 3 updates
			x.Violate("C18/messages-after-close", "%d notifications were delivered after Close returned at %d\n%s", n, closeRet, dump())
		}
	}
}
