//go:build go1.25

//go:debug asynctimerchan=0
package gclienth

import (
	"testing"

	"github.com/openconfig/gnmi/zzverif/harness/common"
)

func TestSim(t *testing.T) { common.Main(t, H{}) }
