//go:build go1.25

// Package clienth is the harness for the client library's Subscribe / Close
// hand-shake and the reconnect loop (C18): client.Reconnect over BaseClient
// or CacheClient, on top of a scripted Impl registered through the existing
// client.RegisterTest seam. Stream outcomes (error before/after data, end of
// stream, ErrStopReading, blocking until Close or cancellation, slow connect)
// are the injected faults; Close or context cancellation is issued by an
// actor task after a drawn virtual wait.
package clienth

import (
	"context"
	"encoding/json"
	"errors"
	"fmt"
	"hash/fnv"
	"io"
	"sort"
	"strings"
	"sync/atomic"
	"time"

	"github.com/openconfig/gnmi/client"
	"github.com/openconfig/gnmi/zzverif/harness/common"
	"github.com/openconfig/gnmi/zzverif/simrt"
)

// Item is one step of a scripted stream: noti (one message carrying N
// notifications), sync, err, eof, stop (ErrStopReading), block.
type Item struct {
	K string `json:"k"`
	N int    `json:"n,omitempty"`
}

// Attempt scripts one Subscribe attempt of one client type.
type Attempt struct {
	ConnectNs int64  `json:"connect_ns,omitempty"` // NewImpl takes this long (ignores cancellation, like a dial without a context)
	SubErr    bool   `json:"sub_err,omitempty"`    // Impl.Subscribe fails
	Items     []Item `json:"items"`
}

type Scenario struct {
	Reconnect bool        `json:"reconnect"`
	Cache     bool        `json:"cache"`
	Poll      bool        `json:"poll,omitempty"`
	Types     [][]Attempt `json:"types"` // per registered client type, cycled per attempt
	BaseNs    int64       `json:"retry_base_ns"`
	MaxNs     int64       `json:"retry_max_ns"`
	// Actor: after WaitNs (or WaitSteps scheduling points) close / cancel.
	WaitNs      int64  `json:"wait_ns,omitempty"`
	WaitSteps   int    `json:"wait_steps,omitempty"`
	Action      string `json:"action"` // close | cancel | none
	CloseBefore bool   `json:"close_before,omitempty"`
	// BufferedEnd: a scripted end of stream (err, eof, stop) was already
	// received when the context is cancelled, so Recv reports it instead of
	// the cancellation (both orders happen with a gRPC stream).
	BufferedEnd bool `json:"buffered_end,omitempty"`
	// IgnoreCtx: the scripted transport does not look at the context (like the
	// repository's own fake client): a stream can be opened and read after
	// the context was cancelled; only Impl.Close stops it. Generated only with
	// scripts that never block, because nothing would ever end a blocked
	// stream of such a transport that was opened after Close (DESIGN 5.1).
	IgnoreCtx bool `json:"ignore_ctx,omitempty"`
	// Resub: after Close (or the cancellation followed by a Close) and the
	// return of the first Subscribe, Subscribe is called again on the same,
	// now closed, reconnecting client: it must return.
	Resub bool `json:"resubscribe,omitempty"`
	// LongOutage: the run lasts 25 virtual minutes of failing attempts.
	LongOutage bool `json:"long_outage,omitempty"`
}

type H struct{}

func (H) Name() string { return "client" }

func (H) Decode(b []byte) (any, error) {
	s := &Scenario{}
	return s, json.Unmarshal(b, s)
}

func (H) Generate(rng *simrt.Rand, prop, tier string) (any, simrt.Config) {
	cfg := simrt.RandomConfig(rng)
	cfg.MaxSteps = 30000
	cfg.IdleNs = int64(3 * time.Hour) // the actor may wait longer than the default idle bound
	sc := &Scenario{Reconnect: rng.Chance(0.8), Cache: rng.Chance(0.5)}
	sc.BaseNs = int64(time.Duration(50+rng.Intn(2000)) * time.Millisecond)
	sc.MaxNs = sc.BaseNs * int64(1+rng.Intn(30))
	nt := 1 + rng.Pick(6, 3, 1)
	for t := 0; t < nt; t++ {
		var as []Attempt
		for k := 1 + rng.Intn(3); k > 0; k-- {
			a := Attempt{SubErr: rng.Chance(0.15)}
			if rng.Chance(0.3) {
				a.ConnectNs = int64(time.Duration(1+rng.Intn(3000)) * time.Millisecond)
			}
			for i := rng.Intn(5); i > 0; i-- {
				switch rng.Pick(6, 2) {
				case 0:
					a.Items = append(a.Items, Item{K: "noti", N: 1 + rng.Intn(3)})
				case 1:
					a.Items = append(a.Items, Item{K: "sync"})
				}
			}
			a.Items = append(a.Items, Item{K: []string{"err", "err", "eof", "stop", "block", "block"}[rng.Intn(6)]})
			as = append(as, a)
		}
		sc.Types = append(sc.Types, as)
	}
	sc.Action = []string{"close", "close", "close", "cancel", "none", "deadline"}[rng.Intn(6)]
	switch rng.Pick(2, 3, 3, 2) {
	case 0:
		sc.CloseBefore = sc.Action == "close" && rng.Chance(0.5)
	case 1:
		sc.WaitSteps = rng.Intn(60)
	case 2:
		sc.WaitNs = int64(time.Duration(rng.Intn(4000)) * time.Millisecond)
	case 3:
		sc.WaitNs = int64(rng.Intn(40)) * sc.MaxNs / 2
	}
	if sc.Action == "deadline" {
		// the caller's context carries a deadline that expires at WaitNs: the
		// subscription ends like a cancelled one, nobody calls anything
		sc.CloseBefore, sc.WaitSteps = false, 0
		if sc.WaitNs <= 0 {
			sc.WaitNs = int64(time.Duration(1+rng.Intn(3000)) * time.Millisecond)
		}
	}
	sc.Poll = !sc.Reconnect && rng.Chance(0.3)
	// A long outage: every attempt fails quickly, nobody closes the client, and
	// the run lasts 25 virtual minutes (retries must never give up).
	if sc.Reconnect && rng.Chance(0.08) {
		sc.Action, sc.CloseBefore, sc.WaitNs, sc.WaitSteps = "none", false, 0, 0
		sc.LongOutage = true
		sc.BaseNs = int64(time.Duration(1+rng.Intn(5)) * time.Second)
		sc.MaxNs = int64(time.Duration(20+rng.Intn(60)) * time.Second)
		for _, as := range sc.Types {
			for i := range as {
				as[i].ConnectNs = 0
				if rng.Chance(0.5) {
					as[i].SubErr = true
				}
				as[i].Items = []Item{{K: "err"}}
			}
		}
	}
	sc.BufferedEnd = rng.Chance(0.5)
	sc.Resub = sc.Reconnect && sc.Action != "none" && sc.Action != "deadline" && rng.Chance(0.3)
	if sc.Action == "close" && rng.Chance(0.3) {
		sc.IgnoreCtx = true
		for _, as := range sc.Types {
			for i := range as {
				if last := &as[i].Items[len(as[i].Items)-1]; last.K == "block" {
					last.K = "err"
				}
			}
		}
	}
	return sc, cfg
}

func (H) Shrinks(s any) []any {
	sc := s.(*Scenario)
	var out []any
	clone := func() *Scenario {
		b, _ := json.Marshal(sc)
		c := &Scenario{}
		json.Unmarshal(b, c)
		return c
	}
	if len(sc.Types) > 1 {
		for i := range sc.Types {
			c := clone()
			c.Types = append(c.Types[:i], c.Types[i+1:]...)
			out = append(out, c)
		}
	}
	for i, t := range sc.Types {
		if len(t) > 1 {
			for j := range t {
				c := clone()
				c.Types[i] = append(c.Types[i][:j], c.Types[i][j+1:]...)
				out = append(out, c)
			}
		}
		for j, a := range t {
			for k := range a.Items {
				if k == len(a.Items)-1 {
					continue
				}
				c := clone()
				c.Types[i][j].Items = append(c.Types[i][j].Items[:k], c.Types[i][j].Items[k+1:]...)
				out = append(out, c)
			}
			if a.ConnectNs > 0 {
				c := clone()
				c.Types[i][j].ConnectNs = 0
				out = append(out, c)
			}
		}
	}
	if sc.WaitNs > 0 {
		c := clone()
		c.WaitNs = 0
		out = append(out, c)
	}
	if sc.WaitSteps > 0 {
		c := clone()
		c.WaitSteps /= 2
		out = append(out, c)
	}
	if sc.Cache {
		c := clone()
		c.Cache = false
		out = append(out, c)
	}
	return out
}

// ---------------------------------------------------------------- scripted impl

type ev struct {
	stamp int64
	ns    int64
	kind  string // newimpl subscribe recv-msg noti connected sync disconnect reset impl-close
	typ   int
	att   int
	id    string
}

const maxT = 1 << 12

type world struct {
	sc  *Scenario
	x   *common.Exec
	evs [][]ev
	n   []atomic.Int64 // attempts per type
	// the context the client library handed to the most recent NewImpl: the
	// reconnecting client's own (cancelled by Close / by the caller's cancel)
	lastCtx atomic.Value
}

func tid() int {
	if t := simrt.Current(); t != nil && t.ID < maxT-1 {
		return t.ID
	}
	return maxT - 1
}

func (w *world) rec(kind string, typ, att int, id string) {
	t := tid()
	w.evs[t] = append(w.evs[t], ev{stamp: simrt.Stamp(), ns: int64(w.x.R.Now()), kind: kind, typ: typ, att: att, id: id})
}

type impl struct {
	w       *world
	typ     int
	att     int
	a       Attempt
	ctx     context.Context
	h       client.NotificationHandler
	pos     int
	conn    bool
	closed  chan struct{}
	closing atomic.Bool
	msg     int
}

func (i *impl) Subscribe(ctx context.Context, q client.Query) error {
	i.w.rec("subscribe", i.typ, i.att, "")
	i.h = q.NotificationHandler
	if err := ctx.Err(); err != nil && !i.w.sc.IgnoreCtx {
		return err // a gRPC stream cannot be opened on a cancelled context
	}
	if i.a.SubErr {
		return errors.New("scripted subscribe failure")
	}
	return nil
}

func (i *impl) Recv() error {
	buffered := false
	if i.w.sc.BufferedEnd && i.pos < len(i.a.Items) {
		switch i.a.Items[i.pos].K {
		case "err", "eof", "stop":
			buffered = true
		}
	}
	if !buffered {
		if err := i.ctx.Err(); err != nil && !i.w.sc.IgnoreCtx {
			return err // as a gRPC stream does
		}
		if i.closing.Load() {
			return errors.New("transport is closing")
		}
	}
	if i.pos >= len(i.a.Items) {
		return io.EOF
	}
	it := i.a.Items[i.pos]
	i.pos++
	deliver := func(n client.Notification, id string) error {
		if !i.conn {
			i.conn = true
			i.w.rec("connected", i.typ, i.att, "")
			if i.h != nil {
				i.h(client.Connected{})
			}
		}
		i.w.rec("noti", i.typ, i.att, id)
		if i.h != nil {
			return i.h(n)
		}
		return nil
	}
	switch it.K {
	case "noti":
		i.msg++
		i.w.rec("recv-msg", i.typ, i.att, fmt.Sprint(i.msg))
		for k := 0; k < it.N; k++ {
			id := fmt.Sprintf("t%d.a%d.m%d.%d", i.typ, i.att, i.msg, k)
			if err := deliver(client.Update{Path: []string{"dev", "x", fmt.Sprint(i.msg), fmt.Sprint(k)}, TS: time.Unix(0, int64(i.msg)), Val: id}, id); err != nil {
				return err
			}
		}
		return nil
	case "sync":
		i.msg++
		i.w.rec("recv-msg", i.typ, i.att, fmt.Sprint(i.msg))
		return deliver(client.Sync{}, fmt.Sprintf("t%d.a%d.m%d.sync", i.typ, i.att, i.msg))
	case "err":
		return errors.New("scripted stream failure")
	case "eof":
		return io.EOF
	case "stop":
		return client.ErrStopReading
	}
	// block until the context is cancelled or the impl is closed, as a gRPC stream does
	switch simrt.Select(false, simrt.CaseRecv(i.ctx.Done()), simrt.CaseRecv(i.closed)) {
	case 0:
		return i.ctx.Err()
	}
	return errors.New("transport is closing")
}

func (i *impl) Close() error {
	i.w.rec("impl-close", i.typ, i.att, "")
	if i.closing.CompareAndSwap(false, true) {
		close(i.closed)
	}
	return nil
}

func (i *impl) Poll() error { i.pos = 0; return nil }

// ---------------------------------------------------------------- execution

func (H) Execute(x *common.Exec, s any) {
	sc := s.(*Scenario)
	w := &world{sc: sc, x: x, evs: make([][]ev, maxT), n: make([]atomic.Int64, len(sc.Types))}
	oldB, oldM, oldR := client.RetryBaseDelay, client.RetryMaxDelay, client.RetryRandomization
	client.RetryBaseDelay, client.RetryMaxDelay, client.RetryRandomization = time.Duration(sc.BaseNs), time.Duration(sc.MaxNs), 0
	client.ResetRegisteredImpls()
	defer func() {
		client.RetryBaseDelay, client.RetryMaxDelay, client.RetryRandomization = oldB, oldM, oldR
		client.ResetRegisteredImpls()
	}()
	var maxConnect int64
	var types []string
	for ti := range sc.Types {
		ti := ti
		name := fmt.Sprintf("sim%d", ti)
		types = append(types, name)
		for _, a := range sc.Types[ti] {
			if a.ConnectNs > maxConnect {
				maxConnect = a.ConnectNs
			}
		}
		client.RegisterTest(name, func(ctx context.Context, d client.Destination) (client.Impl, error) {
			att := int(w.n[ti].Add(1)) - 1
			a := sc.Types[ti][att%len(sc.Types[ti])]
			w.rec("newimpl", ti, att, "")
			w.lastCtx.Store(&ctx)
			if a.ConnectNs > 0 {
				simrt.Sleep(time.Duration(a.ConnectNs))
			}
			return &impl{w: w, typ: ti, att: att, a: a, ctx: ctx, closed: make(chan struct{})}, nil
		})
	}
	var delivered [][]string // per task: ids seen by the application handler
	delivered = make([][]string, maxT)
	appStamp := make([][]int64, maxT)
	q := client.Query{Addrs: []string{"sim:1"}, Target: "dev", Queries: []client.Path{{"*"}}, Type: client.Stream,
		NotificationHandler: func(n client.Notification) error {
			t := tid()
			id := ""
			switch v := n.(type) {
			case client.Update:
				id = fmt.Sprint(v.Val)
			case client.Sync:
				id = "sync"
			case client.Connected:
				id = "connected"
			default:
				id = fmt.Sprintf("%T", n)
			}
			delivered[t] = append(delivered[t], id)
			appStamp[t] = append(appStamp[t], simrt.Stamp())
			return nil
		}}
	if sc.Poll {
		q.Type = client.Poll
	}
	var base client.Client
	if sc.Cache {
		base = client.New()
	} else {
		base = &client.BaseClient{}
	}
	var c client.Client = base
	if sc.Reconnect {
		c = client.Reconnect(base, func() {
			// The callback runs right before the client decides whether to
			// retry: note whether its context is already cancelled.
			id := ""
			if p, _ := w.lastCtx.Load().(*context.Context); p != nil && (*p).Err() != nil {
				id = "ctx-cancelled"
			}
			w.rec("disconnect", -1, -1, id)
		}, func() { w.rec("reset", -1, -1, "") })
	}
	ctx, cancel := context.WithCancel(context.Background())
	if sc.Action == "deadline" {
		ctx, cancel = context.WithTimeout(context.Background(), time.Duration(sc.WaitNs))
	}
	defer cancel()
	var subErr error
	var subRet, subRetNs, closeInv, closeInvNs, closeRet int64
	var subDone, closeDone bool
	var closeErr error
	doClose := func() {
		closeInv, closeInvNs = simrt.Stamp(), int64(x.R.Now())
		switch sc.Action {
		case "cancel":
			cancel()
		case "deadline":
			// the deadline expires at this very instant; nothing to call
		default:
			closeErr = c.Close()
		}
		closeRet = simrt.Stamp()
		closeDone = true
	}
	if sc.CloseBefore {
		x.R.Go("close-before", doClose)
		x.R.Schedule(true, nil)
		x.R.AcquireEnd()
	}
	sub := x.R.Go("subscribe", func() {
		subErr = c.Subscribe(ctx, q, types...)
		subRet, subRetNs = simrt.Stamp(), int64(x.R.Now())
		subDone = true
	})
	var actor *simrt.Task
	if sc.Action != "none" && !sc.CloseBefore {
		actor = x.R.Go("actor", func() {
			for i := 0; i < sc.WaitSteps; i++ {
				simrt.Yield("wait")
			}
			if sc.WaitNs > 0 {
				simrt.Sleep(time.Duration(sc.WaitNs))
			}
			doClose()
		})
	}
	horizon := time.Duration(sc.WaitNs) + time.Duration(3*sc.MaxNs) + 10*time.Second
	if sc.LongOutage {
		horizon = 25 * time.Minute
	}
	out := x.R.Schedule(false, func() bool { return x.R.Now() > horizon || x.R.Steps > 20000 })
	x.R.AcquireEnd()
	if out == simrt.StepLimit {
		x.Inconclusive = "step-limit"
		return
	}
	if out == simrt.Stopped && actor != nil && closeInv == 0 {
		x.Inconclusive = "actor-did-not-act-within-budget"
		return
	}
	_ = sub
	// ---- afterwards (whatever the judgement below returns through): a closed
	// reconnecting client stays closed
	defer func() {
		if len(x.Viol) > 0 || x.Inconclusive != "" || !sc.Resub || !subDone || !closeDone {
			return
		}
		var again bool
		var againErr error
		t0 := x.R.Now()
		x.R.Go("subscribe-again", func() {
			c.Close()
			againErr = c.Subscribe(context.Background(), q, types...)
			again = true
		})
		limit := t0 + time.Duration(maxConnect) + time.Duration(4*sc.MaxNs) + 10*time.Second
		o := x.R.Schedule(false, func() bool { return x.R.Now() > limit || x.R.Steps > 28000 })
		x.R.AcquireEnd()
		x.Oblige(1)
		x.Fault("subscribe-again-on-closed-client")
		if !again && o != simrt.StepLimit {
			x.Violate("C18/subscribe-on-closed-client-did-not-return", "after %s (and Close) a second Subscribe on the same reconnecting client has not returned after %v of virtual time (outcome %v: %s)", sc.Action, x.R.Now()-t0, o, x.R.Summary())
		}
		_ = againErr
	}()
	// ---- judging
	var evs []ev
	for _, e := range w.evs {
		evs = append(evs, e...)
	}
	sort.Slice(evs, func(i, j int) bool { return evs[i].stamp < evs[j].stamp })
	dump := func() string {
		var sb strings.Builder
		for _, e := range evs {
			fmt.Fprintf(&sb, "  [%d] t=%v %s type=%d attempt=%d %s\n", e.stamp, time.Duration(e.ns), e.kind, e.typ, e.att, e.id)
		}
		fmt.Fprintf(&sb, "  Subscribe returned=%v at %d (t=%v) err=%v; %s invoked at %d (t=%v) returned=%v at %d err=%v\n", subDone, subRet, time.Duration(subRetNs), subErr, sc.Action, closeInv, time.Duration(closeInvNs), closeDone, closeRet, closeErr)
		return sb.String()
	}
	x.NonTrivial = len(evs) > 2
	// ---- faults that fired (evidence): where Close / cancel landed, how streams ended
	if closeInv != 0 {
		phase := "before-first-attempt"
		for _, e := range evs {
			if e.stamp > closeInv {
				break
			}
			switch e.kind {
			case "newimpl":
				phase = "during-connect"
			case "subscribe", "connected", "noti", "recv-msg":
				phase = "while-streaming"
			case "disconnect":
				phase = "during-backoff"
			case "reset":
				phase = "before-reconnect-attempt"
			}
		}
		x.Fault(sc.Action + ":" + phase)
	}
	for _, e := range evs {
		if e.kind == "subscribe" && e.typ >= 0 && e.typ < len(sc.Types) {
			a := sc.Types[e.typ][e.att%len(sc.Types[e.typ])]
			if a.SubErr {
				x.Fault("stream-open-fails")
			} else {
				x.Fault("stream-script-ends:" + a.Items[len(a.Items)-1].K)
			}
			if a.ConnectNs > 0 {
				x.Fault("slow-connect")
			}
		}
	}
	if sc.IgnoreCtx {
		x.Fault("transport-ignores-context")
	}
	if sc.LongOutage {
		x.Fault("outage-of-25-virtual-minutes")
	}
	hh := fnv.New64a()
	for _, e := range evs {
		fmt.Fprint(hh, e.kind, e.typ, e.att)
	}
	x.StateHash = hh.Sum64()
	closing := sc.Action != "none"
	if closing && (actor != nil || sc.CloseBefore) {
		x.Oblige(2)
		if !closeDone {
			if out == simrt.Stopped {
				// the actor's wait may lie beyond the horizon only if WaitNs is huge; it is not
				x.Violate("C18/close-never-returned", "%s did not return\n%s", sc.Action, dump())
			} else {
				x.Violate("C18/close-never-returned", "%s did not return and nothing else can happen: %s\n%s", sc.Action, x.R.Summary(), dump())
			}
			return
		}
		if !subDone && !sc.Reconnect && sc.Action == "close" && closeErr == client.ErrClientInit {
			// a bare client's Close before the subscription exists reports that it did nothing
			x.Probe("bare-close-before-subscribe")
		} else if !subDone {
			x.Violate("C18/subscribe-never-returned", "Subscribe did not return after %s (outcome %v): %s\n%s", sc.Action, out, x.R.Summary(), dump())
			return
		}
		if !subDone {
			return
		}
		// bound: within the current back-off interval (plus a connect that ignores cancellation)
		if !sc.CloseBefore && subRetNs-closeInvNs > sc.MaxNs+maxConnect+int64(time.Millisecond) && subRet > closeInv {
			x.Violate("C18/subscribe-returned-late", "Subscribe returned %v after %s was invoked; back-off max is %v, slowest connect %v\n%s", time.Duration(subRetNs-closeInvNs), sc.Action, time.Duration(sc.MaxNs), time.Duration(maxConnect), dump())
		}
	}
	if !closing && sc.Reconnect {
		// never closed: the client must still be trying (or blocked in a stream)
		x.Oblige(1)
		if subDone {
			x.Violate("C18/reconnect-gave-up", "a reconnecting client that was never closed returned from Subscribe: %v\n%s", subErr, dump())
			return
		}
		if out == simrt.Quiescent {
			// legitimate only if it is blocked inside a stream (scripted "block")
			blockedInStream := false
			for _, ts := range sc.Types {
				for _, a := range ts {
					if a.Items[len(a.Items)-1].K == "block" {
						blockedInStream = true
					}
				}
			}
			if !blockedInStream {
				x.Violate("C18/reconnect-stalled", "a reconnecting client that was never closed stopped retrying: %s\n%s", x.R.Summary(), dump())
				return
			}
		}
	}
	// ---- reconnect discipline: attempts, disconnect once per ended attempt, reset before each retry.
	if sc.Reconnect {
		x.Oblige(1)
		// An attempt = the group of newimpl events between two resets (getFirst tries every type).
		// Between two consecutive disconnect callbacks there is exactly one
		// reset callback and at least one attempt; reset never comes without a
		// preceding disconnect. (Slow client types of an earlier getFirst
		// race may still create impls later; they are closed at once.)
		state := "idle" // idle -> disconnected -> (reset) -> idle
		attemptsSince := 0
		for _, e := range evs {
			switch e.kind {
			case "subscribe":
				attemptsSince++
			case "disconnect":
				if state == "disconnected" {
					x.Violate("C18/retry-without-reset", "two disconnect callbacks (second at %d) without the reset callback between them\n%s", e.stamp, dump())
					return
				}
				state = "disconnected"
			case "reset":
				if state != "disconnected" {
					x.Violate("C18/reset-without-disconnect", "reset callback at %d without a preceding disconnect\n%s", e.stamp, dump())
					return
				}
				state = "idle"
				attemptsSince = 0
			}
		}
		nDisc := 0
		cancelledAt := int64(0)
		for _, e := range evs {
			if e.kind == "disconnect" {
				nDisc++
				if e.id == "ctx-cancelled" && cancelledAt == 0 {
					cancelledAt = e.stamp
				}
			}
			if e.kind == "reset" && cancelledAt != 0 {
				x.Violate("C18/retry-after-close", "the attempt ended (disconnect callback at %d) with the subscription context already cancelled by %s, yet the client backed off and retried (reset callback at %d)\n%s", cancelledAt, sc.Action, e.stamp, dump())
				return
			}
		}
		if subDone && nDisc == 0 {
			x.Violate("C18/missing-disconnect", "Subscribe returned but the disconnect callback was never invoked\n%s", dump())
			return
		}
	}
	// ---- Connected first and order, per attempt, as seen by the application.
	var app []string
	var appSt []int64
	type pair struct {
		st int64
		id string
	}
	var ps []pair
	for t := range delivered {
		for k := range delivered[t] {
			ps = append(ps, pair{appStamp[t][k], delivered[t][k]})
		}
	}
	sort.Slice(ps, func(i, j int) bool { return ps[i].st < ps[j].st })
	for _, p := range ps {
		app, appSt = append(app, p.id), append(appSt, p.st)
	}
	// what the impls produced, in order
	var produced []string
	for _, e := range evs {
		switch e.kind {
		case "connected":
			produced = append(produced, "connected")
		case "noti":
			if strings.HasSuffix(e.id, ".sync") {
				produced = append(produced, "sync")
			} else {
				produced = append(produced, e.id)
			}
		}
	}
	x.Oblige(1)
	if len(app) == len(produced)-1 && out == simrt.Stopped {
		produced = produced[:len(app)] // stopped between a stream producing a notification and the handler seeing it
	}
	if strings.Join(app, ",") != strings.Join(produced, ",") {
		k := 0
		for k < len(app) && k < len(produced) && app[k] == produced[k] {
			k++
		}
		lo := k - 3
		if lo < 0 {
			lo = 0
		}
		x.Violate("C18/notification-order", "the application saw %d notifications, the streams produced %d; first difference at index %d: application ...%v, streams ...%v", len(app), len(produced), k, app[lo:min(len(app), k+3)], produced[lo:min(len(produced), k+3)])
		return
	}
	// after Close returned: at most the notifications of one further received message
	// (A transport that ignores the context can only be stopped through
	// Impl.Close: a Close that found no attempt under way has nothing to stop,
	// so with such a transport the clause is judged for a Close invoked after
	// the first attempt began.)
	begun := !sc.IgnoreCtx
	for _, e := range evs {
		if e.kind == "newimpl" && e.stamp < closeInv {
			begun = true
		}
	}
	if closeDone && begun && sc.Action == "close" && (sc.Reconnect || closeErr != client.ErrClientInit) {
		x.Oblige(1)
		msgs := map[string]bool{}
		for _, e := range evs {
			if e.kind == "recv-msg" && e.stamp > closeRet {
				msgs[fmt.Sprintf("%d.%d.%s", e.typ, e.att, e.id)] = true
			}
		}
		if len(msgs) > 1 {
			x.Violate("C18/messages-after-close", "%d further messages were received and delivered after Close returned at %d\n%s", len(msgs), closeRet, dump())
		}
	}
}
