//go:build go1.25

// Package latencyh is the latency-window sub-harness of C15: the real
// latency.Latency driven by a compute task (the update stream) and a refresh
// task (the periodic metadata update) on a simulated clock with jitter and
// jumps; a recording Metadata captures every exported statistic.
package latencyh

import (
	"encoding/json"
	"fmt"
	"hash/fnv"
	"sync/atomic"
	"time"

	"github.com/openconfig/gnmi/latency"
	"github.com/openconfig/gnmi/zzverif/harness/common"
	"github.com/openconfig/gnmi/zzverif/simrt"
)

// Ev: adv (advance the clock by N ns), cmp (Compute a sample with latency N ns), ref (UpdateReset).
type Ev struct {
	K string `json:"k"`
	N int64  `json:"n,omitempty"`
}

type Scenario struct {
	PeriodNs int64 `json:"period_ns"`
	Windows  []int `json:"windows"` // multiples of the period
	PrecNs   int64 `json:"prec_ns"`
	Compute  []Ev  `json:"compute"` // compute task: adv / cmp
	Refresh  []Ev  `json:"refresh"` // refresh task: adv / ref
	Split    bool  `json:"split"`   // two tasks (concurrent) or one (refresh events merged by time)
	// Refresh2: a second refresher (the update stream's Reset refreshes the
	// same Latency as the periodic task does): adv / ref
	Refresh2  []Ev    `json:"refresh2,omitempty"`
	JitterPct float64 `json:"jitter_pct,omitempty"`
}

type H struct{}

func (H) Name() string { return "latency" }

func (H) RaceProperty(string) string { return "C15" }

func (H) Decode(b []byte) (any, error) {
	s := &Scenario{}
	return s, json.Unmarshal(b, s)
}

func (H) Generate(rng *simrt.Rand, prop, tier string) (any, simrt.Config) {
	cfg := simrt.RandomConfig(rng)
	sc := &Scenario{PeriodNs: int64(time.Duration(1+rng.Intn(10)) * time.Second), Split: rng.Chance(0.5)}
	for i := 1 + rng.Intn(3); i > 0; i-- {
		sc.Windows = append(sc.Windows, 1+rng.Intn(5))
	}
	sc.PrecNs = []int64{0, 1, 1000, 1000000}[rng.Intn(4)]
	nref := 3 + rng.Intn(12)
	jitter := rng.Chance(0.5)
	for i := 0; i < nref; i++ {
		d := sc.PeriodNs
		if jitter {
			d += int64(rng.Intn(int(sc.PeriodNs/5))) - sc.PeriodNs/10
		}
		if rng.Chance(0.05) {
			d += sc.PeriodNs * int64(1+rng.Intn(4)) // a stalled refresh
		}
		sc.Refresh = append(sc.Refresh, Ev{K: "adv", N: d}, Ev{K: "ref"})
	}
	total := int64(nref) * sc.PeriodNs
	var t int64
	for t < total {
		d := int64(rng.Intn(int(sc.PeriodNs)))
		if rng.Chance(0.1) {
			d = 0
		}
		t += d
		sc.Compute = append(sc.Compute, Ev{K: "adv", N: d})
		for k := 1 + rng.Intn(3); k > 0; k-- {
			l := int64(1 + rng.Intn(5000000))
			if rng.Chance(0.1) {
				l = int64(time.Duration(1+rng.Intn(100)) * time.Second)
			}
			// a target whose clock is ahead of the collector's stamps its updates
			// in the collector's future (negative latency), and a coarse target
			// clock can hit the collector's reading exactly (zero latency)
			switch rng.Pick(30, 2, 3) {
			case 1:
				l = 0
			case 2:
				l = -int64(1 + rng.Intn(5000000))
			}
			sc.Compute = append(sc.Compute, Ev{K: "cmp", N: l})
		}
	}
	if rng.Chance(0.35) {
		// resets arrive at arbitrary instants, sometimes exactly on a tick
		var t2 int64
		for i := 1 + rng.Intn(5); i > 0 && t2 < total; i-- {
			d := int64(rng.Intn(int(3 * sc.PeriodNs)))
			if rng.Chance(0.3) {
				d = sc.PeriodNs * int64(1+rng.Intn(3))
			}
			t2 += d
			sc.Refresh2 = append(sc.Refresh2, Ev{K: "adv", N: d}, Ev{K: "ref"})
		}
	}
	return sc, cfg
}

func (H) Shrinks(s any) []any {
	sc := s.(*Scenario)
	var out []any
	clone := func() *Scenario {
		b, _ := json.Marshal(sc)
		c := &Scenario{}
		json.Unmarshal(b, c)
		return c
	}
	if len(sc.Windows) > 1 {
		for i := range sc.Windows {
			c := clone()
			c.Windows = append(c.Windows[:i], c.Windows[i+1:]...)
			out = append(out, c)
		}
	}
	for i, e := range sc.Compute {
		if e.K == "cmp" {
			c := clone()
			c.Compute = append(c.Compute[:i], c.Compute[i+1:]...)
			out = append(out, c)
		}
	}
	if len(sc.Refresh2) > 0 {
		c := clone()
		c.Refresh2 = nil
		out = append(out, c)
	}
	if sc.Split {
		c := clone()
		c.Split = false
		out = append(out, c)
	}
	return out
}

type sample struct {
	at  int64 // clock reading inside Compute
	lat int64
}

type export struct {
	ref  int   // index of the refresh that exported it
	at   int64 // clock reading inside that UpdateReset (filled in afterwards)
	name string
	val  int64
}

type recMeta struct {
	cur *[]export
	ref *int
}

func (m recMeta) SetInt(name string, v int64) error {
	*m.cur = append(*m.cur, export{ref: *m.ref, name: name, val: v})
	return nil
}

func (H) Execute(x *common.Exec, s any) {
	sc := s.(*Scenario)
	var clock atomic.Int64
	clock.Store(int64(time.Hour))
	// Each task advances a shared virtual clock through real virtual sleeps so
	// that the two tasks interleave in time order.
	base := time.Now()
	old := latency.Now
	var last [16]int64 // per task id: the clock reading its latest call took
	latency.Now = func() time.Time {
		v := int64(time.Since(base)) + int64(time.Hour)
		if t := simrt.Current(); t != nil && t.ID < len(last) {
			last[t.ID] = v
		}
		return time.Unix(0, v)
	}
	defer func() { latency.Now = old }()
	var ws []time.Duration
	for _, k := range sc.Windows {
		ws = append(ws, time.Duration(int64(k)*sc.PeriodNs))
	}
	var opts *latency.Options
	if sc.PrecNs > 0 {
		opts = &latency.Options{AvgPrecision: time.Duration(sc.PrecNs)}
	}
	l := latency.New(ws, opts)
	var samples []sample
	var exports []export
	var refreshAt []int64
	x.R.Go("compute", func() {
		for _, e := range sc.Compute {
			switch e.K {
			case "adv":
				if e.N > 0 {
					simrt.Sleep(time.Duration(e.N))
				}
			case "cmp":
				now := int64(time.Since(base)) + int64(time.Hour)
				l.Compute(time.Unix(0, now-e.N))
				// the latency is measured against the reading Compute took
				me := simrt.Current().ID
				samples = append(samples, sample{at: last[me], lat: last[me] - (now - e.N)})
			}
		}
	})
	// each refresher records its own refreshes; they are merged afterwards
	type refRec struct {
		at   int64
		exps []export
	}
	refs := make([][]refRec, 2)
	refresher := func(k int, evs []Ev) func() {
		return func() {
			me := simrt.Current().ID
			for _, e := range evs {
				switch e.K {
				case "adv":
					simrt.Sleep(time.Duration(e.N))
				case "ref":
					var exps []export
					zero := 0
					l.UpdateReset(recMeta{cur: &exps, ref: &zero})
					refs[k] = append(refs[k], refRec{at: last[me], exps: exps})
				}
			}
		}
	}
	x.R.Go("refresh", refresher(0, sc.Refresh))
	if len(sc.Refresh2) > 0 {
		x.R.Go("refresh-from-reset", refresher(1, sc.Refresh2))
	}
	out := x.R.Schedule(false, nil)
	x.R.AcquireEnd()
	if out != simrt.AllDone {
		if out == simrt.StepLimit {
			x.Inconclusive = "step-limit"
			return
		}
		x.Violate("C15/latency-deadlock", "Compute/UpdateReset blocked: %s", x.R.Summary())
		return
	}
	for _, rs := range refs {
		for _, r := range rs {
			for _, e := range r.exps {
				e.ref = len(refreshAt)
				exports = append(exports, e)
			}
			refreshAt = append(refreshAt, r.at)
		}
	}
	if len(sc.Refresh2) > 0 {
		x.Fault("second-refresher-concurrent-with-periodic-refresh")
	}
	x.NonTrivial = len(samples) > 2 && len(refreshAt) > 2
	for _, e := range sc.Refresh {
		if e.K == "adv" {
			switch {
			case e.N >= 2*sc.PeriodNs:
				x.Fault("refresh-stalled-for-whole-periods")
			case e.N != sc.PeriodNs:
				x.Fault("refresh-tick-jitter")
			}
		}
	}
	if sc.Split {
		x.Fault("compute-concurrent-with-refresh")
	}
	hh := fnv.New64a()
	fmt.Fprint(hh, len(samples), len(exports))
	x.StateHash = hh.Sum64()
	// group exports per refresh: exports are appended in order; find boundaries by at
	prec := sc.PrecNs
	if prec == 0 {
		prec = 1
	}
	for _, e := range exports {
		T := refreshAt[e.ref]
		for wi, k := range sc.Windows {
			w := int64(k) * sc.PeriodNs
			for _, typ := range []latency.StatType{latency.Avg, latency.Max, latency.Min} {
				if e.name != latency.MetadataName(ws[wi], typ) {
					continue
				}
				// samples certainly inside the window (T-w, T) and those possibly attributed to it
				// (the slot that straddles T-w, and samples taken at the very instant of the refresh)
				var must, may []int64
				// the straddling slot starts at the last refresh at or before T-w
				straddle := int64(-1 << 62)
				for _, r := range refreshAt {
					if r <= T-w && r > straddle {
						straddle = r
					}
				}
				for _, s := range samples {
					switch {
					case s.at > T-w && s.at < T:
						must = append(must, s.lat)
					case s.at >= straddle && s.at <= T:
						may = append(may, s.lat)
					}
				}
				all := append(append([]int64(nil), must...), may...)
				if len(all) == 0 {
					x.Oblige(1)
					x.Violate("C15/latency-exported-without-samples", "%s = %d exported at t=%d although no latency was observed in or next to that window", e.name, e.val, T)
					return
				}
				lo, hi := all[0], all[0]
				for _, v := range all {
					lo, hi = min(lo, v), max(hi, v)
				}
				x.Oblige(1)
				switch typ {
				case latency.Max:
					mustMax := int64(-1 << 62)
					for _, v := range must {
						mustMax = max(mustMax, v)
					}
					if e.val > hi || e.val < mustMax {
						x.Violate("C15/latency-max-out-of-bounds", "%s = %d exported at t=%d; largest latency observed in the window is between %d (certainly inside) and %d (incl. the slot at the window edge); window %v, period %v", e.name, e.val, T, mustMax, hi, time.Duration(w), time.Duration(sc.PeriodNs))
						return
					}
				case latency.Min:
					mustMin := int64(1 << 62)
					for _, v := range must {
						mustMin = min(mustMin, v)
					}
					if e.val < lo || e.val > mustMin {
						x.Violate("C15/latency-min-out-of-bounds", "%s = %d exported at t=%d; smallest latency observed in the window is between %d (incl. the slot at the window edge) and %d (certainly inside)", e.name, e.val, T, lo, mustMin)
						return
					}
				case latency.Avg:
					if e.val < lo-prec || e.val > hi+prec {
						x.Violate("C15/latency-avg-out-of-bounds", "%s = %d exported at t=%d; latencies observed in the window lie in [%d, %d], precision %d", e.name, e.val, T, lo, hi, prec)
						return
					}
				}
			}
		}
	}
}
