//go:build go1.25

// Package managerh is the harness for the target manager (C13): the real
// manager.Manager on the real connection.Manager, dialling scripted gNMI
// targets over the simulated transport. Session outcomes (k messages then
// error / end of stream / silence beyond the receive timeout / blocking),
// dial refusals and slow dials are the injected faults; Remove, Reconnect
// and duplicate/unknown calls are issued by fault-actor tasks at drawn
// virtual times.
package managerh

import (
	"context"
	"encoding/json"
	"fmt"
	"hash/fnv"
	"sort"
	"strings"
	"sync/atomic"
	"time"

	"github.com/openconfig/gnmi/connection"
	"github.com/openconfig/gnmi/manager"
	gpb "github.com/openconfig/gnmi/proto/gnmi"
	tpb "github.com/openconfig/gnmi/proto/target"
	"github.com/openconfig/gnmi/zzverif/harness/common"
	"github.com/openconfig/gnmi/zzverif/simgrpc"
	"github.com/openconfig/gnmi/zzverif/simnet"
	"github.com/openconfig/gnmi/zzverif/simrt"
	"google.golang.org/grpc/codes"
	"google.golang.org/grpc/metadata"
	"google.golang.org/grpc/status"
)

// Msg is one scripted response.
type Msg struct {
	K       string `json:"k"` // upd | sync | errresp | nilresp
	DelayNs int64  `json:"delay_ns,omitempty"`
}

// Session is one scripted stream.
type Session struct {
	Msgs []Msg  `json:"msgs"`
	End  string `json:"end"` // err | eof | silence
	Code uint32 `json:"code,omitempty"`
}

// DialOut is one scripted dial outcome for a server address.
type DialOut struct {
	Kind    string `json:"kind"` // ok | err | block
	DelayNs int64  `json:"delay_ns,omitempty"`
}

// Server is a scripted target endpoint.
type Server struct {
	Sessions []Session `json:"sessions"` // cycled
	Dials    []DialOut `json:"dials"`    // cycled
}

// Target is a managed target.
type Target struct {
	Name      string `json:"name"`
	Server    int    `json:"server"`
	RecvToNs  int64  `json:"recv_timeout_ns,omitempty"` // per-target meta receive_timeout
	BadRecvTo bool   `json:"bad_recv_timeout,omitempty"`
	// Alt: a second next-hop address (server index + 1; 0 = none). The manager
	// tries a target's addresses in turn within one attempt.
	Alt int `json:"alt,omitempty"`
}

// Act is one fault-actor step: after WaitNs of virtual time do K on target T.
type Act struct {
	WaitNs int64  `json:"wait_ns"`
	K      string `json:"k"` // add | remove | reconnect | add-dup | remove-unknown | reconnect-unknown
	T      int    `json:"t"`
}

type Scenario struct {
	Servers      []Server `json:"servers"`
	Targets      []Target `json:"targets"`
	Actors       [][]Act  `json:"actors"`
	BaseNs       int64    `json:"retry_base_ns"`
	MaxNs        int64    `json:"retry_max_ns"`
	RecvToNs     int64    `json:"recv_timeout_ns"`
	DialToNs     int64    `json:"dial_timeout_ns"`
	Window       int      `json:"window"`
	InitiallyAdd []int    `json:"initially_add"`
}

type H struct{}

func (H) Name() string { return "manager" }

func (H) Decode(b []byte) (any, error) {
	s := &Scenario{}
	return s, json.Unmarshal(b, s)
}

func (H) Generate(rng *simrt.Rand, prop, tier string) (any, simrt.Config) {
	cfg := simrt.RandomConfig(rng)
	cfg.MaxSteps = 60000
	sc := &Scenario{
		BaseNs:   int64(time.Duration(100+rng.Intn(2000)) * time.Millisecond),
		Window:   []int{0, 1, 8}[rng.Intn(3)],
		DialToNs: int64(time.Duration(1+rng.Intn(30)) * time.Second),
	}
	sc.MaxNs = sc.BaseNs * int64(1+rng.Intn(20))
	if rng.Chance(0.6) {
		sc.RecvToNs = int64(time.Duration(1+rng.Intn(20)) * time.Second)
	}
	ns := 1 + rng.Intn(3)
	for i := 0; i < ns; i++ {
		var sv Server
		for k := 1 + rng.Intn(3); k > 0; k-- {
			var se Session
			for m := rng.Intn(5); m > 0; m-- {
				msg := Msg{K: []string{"upd", "upd", "upd", "sync", "errresp", "nilresp"}[rng.Intn(6)]}
				if rng.Chance(0.4) {
					msg.DelayNs = int64(time.Duration(1+rng.Intn(3000)) * time.Millisecond)
				}
				se.Msgs = append(se.Msgs, msg)
			}
			se.End = []string{"err", "err", "eof", "silence"}[rng.Intn(4)]
			se.Code = uint32([]codes.Code{codes.Unavailable, codes.Internal, codes.Canceled, codes.Unknown}[rng.Intn(4)])
			sv.Sessions = append(sv.Sessions, se)
		}
		for k := 1 + rng.Intn(3); k > 0; k-- {
			d := DialOut{Kind: []string{"ok", "ok", "ok", "err", "block"}[rng.Intn(5)]}
			if rng.Chance(0.5) {
				d.DelayNs = int64(time.Duration(1+rng.Intn(5000)) * time.Millisecond)
			}
			sv.Dials = append(sv.Dials, d)
		}
		sc.Servers = append(sc.Servers, sv)
	}
	nt := 1 + rng.Intn(4)
	for i := 0; i < nt; i++ {
		t := Target{Name: fmt.Sprintf("dev%d", i), Server: rng.Intn(ns)}
		if rng.Chance(0.25) {
			t.RecvToNs = int64(time.Duration(1+rng.Intn(10)) * time.Second)
		}
		t.BadRecvTo = rng.Chance(0.05)
		if ns > 1 && rng.Chance(0.3) {
			if a := rng.Intn(ns); a != t.Server {
				t.Alt = a + 1
			}
		}
		sc.Targets = append(sc.Targets, t)
		if rng.Chance(0.8) {
			sc.InitiallyAdd = append(sc.InitiallyAdd, i)
		}
	}
	na := 1 + rng.Intn(3)
	for a := 0; a < na; a++ {
		var acts []Act
		for k := 1 + rng.Intn(6); k > 0; k-- {
			act := Act{T: rng.Intn(nt), K: []string{"remove", "remove", "reconnect", "reconnect", "add", "add", "add-dup", "remove-unknown", "reconnect-unknown"}[rng.Intn(9)]}
			switch rng.Pick(3, 3, 3, 1) {
			case 0:
				act.WaitNs = int64(rng.Intn(1000))
			case 1:
				act.WaitNs = int64(time.Duration(rng.Intn(5000)) * time.Millisecond)
			case 2:
				act.WaitNs = int64(time.Duration(rng.Intn(60)) * time.Second)
			}
			acts = append(acts, act)
		}
		sc.Actors = append(sc.Actors, acts)
	}
	return sc, cfg
}

func (H) Shrinks(s any) []any {
	sc := s.(*Scenario)
	var out []any
	clone := func() *Scenario {
		b, _ := json.Marshal(sc)
		c := &Scenario{}
		json.Unmarshal(b, c)
		return c
	}
	if len(sc.Actors) > 0 {
		for i := range sc.Actors {
			c := clone()
			c.Actors = append(c.Actors[:i], c.Actors[i+1:]...)
			out = append(out, c)
		}
	}
	for i, a := range sc.Actors {
		for j := range a {
			c := clone()
			c.Actors[i] = append(c.Actors[i][:j], c.Actors[i][j+1:]...)
			out = append(out, c)
		}
	}
	for i := range sc.InitiallyAdd {
		c := clone()
		c.InitiallyAdd = append(c.InitiallyAdd[:i], c.InitiallyAdd[i+1:]...)
		out = append(out, c)
	}
	for i, sv := range sc.Servers {
		for j, se := range sv.Sessions {
			if len(sv.Sessions) > 1 {
				c := clone()
				c.Servers[i].Sessions = append(c.Servers[i].Sessions[:j], c.Servers[i].Sessions[j+1:]...)
				out = append(out, c)
			}
			for k := range se.Msgs {
				c := clone()
				c.Servers[i].Sessions[j].Msgs = append(c.Servers[i].Sessions[j].Msgs[:k], c.Servers[i].Sessions[j].Msgs[k+1:]...)
				out = append(out, c)
			}
		}
		for j := range sv.Dials {
			if len(sv.Dials) > 1 {
				c := clone()
				c.Servers[i].Dials = append(c.Servers[i].Dials[:j], c.Servers[i].Dials[j+1:]...)
				out = append(out, c)
			}
		}
	}
	if sc.RecvToNs != 0 {
		c := clone()
		c.RecvToNs = 0
		out = append(out, c)
	}
	return out
}

// ---------------------------------------------------------------- scripted target

type sessRec struct {
	server   int
	seq      int // session number on this server
	msgs     []Msg
	target   atomic.Pointer[string]
	gotReq   atomic.Bool
	reqStamp atomic.Int64
	reqNs    atomic.Int64
	nSent    atomic.Int64 // messages handed to Send successfully
	lastNs   atomic.Int64 // virtual time of the request / of the latest successful Send
	times    []int64      // request time, then the time of every successful Send (written by the server task only)
	endNs    atomic.Int64 // virtual time at which the stream ended
	endStamp atomic.Int64
	endKind  atomic.Pointer[string]
	open     atomic.Bool
}

func (s *sessRec) Target() string {
	if p := s.target.Load(); p != nil {
		return *p
	}
	return ""
}

func (s *sessRec) EndKind() string {
	if p := s.endKind.Load(); p != nil {
		return *p
	}
	return ""
}

// Sent lists the ids of the messages handed to Send successfully, in order.
func (s *sessRec) Sent() []string {
	var out []string
	for i := 0; i < int(s.nSent.Load()) && i < len(s.msgs); i++ {
		out = append(out, fmt.Sprintf("s%d.%d.%d:%s", s.server, s.seq, i, s.msgs[i].K))
	}
	return out
}

type scripted struct {
	gpb.UnimplementedGNMIServer
	idx   int
	sv    Server
	n     atomic.Int64
	w     *world
	dials atomic.Int64
}

const maxT = 1 << 15

type world struct {
	sc       *Scenario
	x        *common.Exec
	sess     [][]*sessRec // per task id
	cbs      [][]cb       // per task id
	dials    [][]*dialRec
	attempts [][]attempt
}

type cb struct {
	stamp int64
	ns    int64
	kind  string // connect update sync reset connecterror monitorerror
	name  string
	id    string // update: message id
	err   string
}

type dialRec struct {
	stamp int64
	ns    int64
	addr  string
	kind  string
	end   atomic.Int64
	endNs atomic.Int64 // virtual time at which the hook returned
	until int64        // an "ok" dial is in flight until this virtual time (the transport waits out the scripted latency after the hook returned)
}

func tid() int {
	if t := simrt.Current(); t != nil && t.ID < maxT-1 {
		return t.ID
	}
	return maxT - 1
}

func (s *scripted) Subscribe(stream gpb.GNMI_SubscribeServer) error {
	seq := int(s.n.Add(1)) - 1
	se := s.sv.Sessions[seq%len(s.sv.Sessions)]
	rec := &sessRec{server: s.idx, seq: seq, msgs: se.Msgs}
	rec.open.Store(true)
	id := tid()
	s.w.sess[id] = append(s.w.sess[id], rec)
	end := func(kind string) {
		rec.endKind.Store(&kind)
		rec.endNs.Store(int64(s.w.x.R.Now()))
		rec.endStamp.Store(simrt.Stamp())
		rec.open.Store(false)
	}
	req, err := stream.Recv()
	if err != nil {
		end("no-request")
		return err
	}
	tg := req.GetSubscribe().GetPrefix().GetTarget()
	rec.target.Store(&tg)
	rec.reqStamp.Store(simrt.Stamp())
	rec.reqNs.Store(int64(s.w.x.R.Now()))
	rec.lastNs.Store(int64(s.w.x.R.Now()))
	rec.times = append(rec.times, int64(s.w.x.R.Now()))
	rec.gotReq.Store(true)
	for i, m := range se.Msgs {
		if m.DelayNs > 0 {
			tm := time.NewTimer(time.Duration(m.DelayNs))
			if simrt.Select(false, simrt.CaseRecv(tm.C), simrt.CaseRecv(stream.Context().Done())) == 1 {
				tm.Stop()
				end("cancelled")
				return stream.Context().Err()
			}
		}
		mid := fmt.Sprintf("s%d.%d.%d:%s", s.idx, seq, i, m.K)
		var resp *gpb.SubscribeResponse
		switch m.K {
		case "upd":
			resp = &gpb.SubscribeResponse{Response: &gpb.SubscribeResponse_Update{Update: &gpb.Notification{Timestamp: int64(i + 1),
				Update: []*gpb.Update{{Path: &gpb.Path{Elem: []*gpb.PathElem{{Name: "id"}}}, Val: &gpb.TypedValue{Value: &gpb.TypedValue_StringVal{StringVal: mid}}}}}}}
		case "sync":
			resp = &gpb.SubscribeResponse{Response: &gpb.SubscribeResponse_SyncResponse{SyncResponse: true}}
		case "errresp":
			resp = &gpb.SubscribeResponse{Response: &gpb.SubscribeResponse_Error{Error: &gpb.Error{Code: 3, Message: "scripted"}}}
		default:
			resp = &gpb.SubscribeResponse{}
		}
		if err := stream.Send(resp); err != nil {
			end("send-failed")
			return err
		}
		rec.nSent.Add(1)
		rec.lastNs.Store(int64(s.w.x.R.Now()))
		rec.times = append(rec.times, int64(s.w.x.R.Now()))
	}
	switch se.End {
	case "err":
		end("err")
		return status.Error(codes.Code(se.Code), "scripted failure")
	case "eof":
		end("eof")
		return nil
	}
	simrt.Recv(stream.Context().Done())
	end("cancelled")
	return stream.Context().Err()
}

// recCM wraps the real connection manager and records every request: one
// request = the start of one connection attempt of a target (the outgoing
// metadata carries the target name).
type recCM struct {
	inner *connection.Manager
	w     *world
}

type attempt struct {
	stamp int64
	ns    int64
	name  string
}

func (c *recCM) Connection(ctx context.Context, addr, dialer string) (*simgrpc.ClientConn, func(), error) {
	name := ""
	if md, ok := metadata.FromOutgoingContext(ctx); ok {
		if v := md.Get("target"); len(v) > 0 {
			name = v[0]
		}
	}
	id := tid()
	c.w.attempts[id] = append(c.w.attempts[id], attempt{stamp: simrt.Stamp(), ns: int64(c.w.x.R.Now()), name: name})
	return c.inner.Connection(ctx, addr, dialer)
}

// ---------------------------------------------------------------- execution

type actRec struct {
	act      Act
	inv, ret int64
	retNs    int64
	err      string
	returned bool
}

func (H) Execute(x *common.Exec, s any) {
	sc := s.(*Scenario)
	w := &world{sc: sc, x: x, sess: make([][]*sessRec, maxT), cbs: make([][]cb, maxT), dials: make([][]*dialRec, maxT), attempts: make([][]attempt, maxT)}
	oldB, oldM, oldR := manager.RetryBaseDelay, manager.RetryMaxDelay, manager.RetryRandomization
	manager.RetryBaseDelay, manager.RetryMaxDelay, manager.RetryRandomization = time.Duration(sc.BaseNs), time.Duration(sc.MaxNs), 0
	defer func() { manager.RetryBaseDelay, manager.RetryMaxDelay, manager.RetryRandomization = oldB, oldM, oldR }()

	servers := make([]*scripted, len(sc.Servers))
	addr := func(i int) string { return fmt.Sprintf("10.0.0.%d:%d", i+1, 9000+i) }
	byPort := map[string]*scripted{}
	simgrpc.SetHooks(&simgrpc.Hooks{Window: sc.Window, Dial: func(ctx context.Context, target string) (time.Duration, error) {
		sv := byPort[simnet.Port(target)]
		if sv == nil {
			return 0, fmt.Errorf("no route to %s", target)
		}
		k := int(sv.dials.Add(1)) - 1
		d := sv.sv.Dials[k%len(sv.sv.Dials)]
		rec := &dialRec{stamp: simrt.Stamp(), ns: int64(x.R.Now()), addr: target, kind: d.Kind, until: int64(x.R.Now()) + d.DelayNs}
		id := tid()
		w.dials[id] = append(w.dials[id], rec)
		defer func() { rec.end.Store(simrt.Stamp()); rec.endNs.Store(int64(x.R.Now())) }()
		switch d.Kind {
		case "err":
			if d.DelayNs > 0 {
				simrt.Sleep(time.Duration(d.DelayNs))
			}
			return 0, fmt.Errorf("connection refused")
		case "block":
			simrt.Recv(ctx.Done())
			return 0, ctx.Err()
		}
		return time.Duration(d.DelayNs), nil
	}})
	var gsrvs []*simgrpc.Server
	for i, sv := range sc.Servers {
		st := &scripted{idx: i, sv: sv, w: w}
		servers[i] = st
		byPort[simnet.Port(addr(i))] = st
		gs := simgrpc.NewServer()
		gpb.RegisterGNMIServer(gs, st)
		lis, err := simnet.Listen("tcp", addr(i))
		if err != nil {
			x.Violate("C13/setup", "%v", err)
			return
		}
		gsrvs = append(gsrvs, gs)
		x.R.GoDaemon("serve", func() { gs.Serve(lis) })
	}
	cm, err := connection.NewManager()
	if err != nil {
		x.Violate("C13/setup", "%v", err)
		return
	}
	record := func(kind, name, id, e string) {
		t := tid()
		w.cbs[t] = append(w.cbs[t], cb{stamp: simrt.Stamp(), ns: int64(x.R.Now()), kind: kind, name: name, id: id, err: e})
	}
	mgr, err := manager.NewManager(manager.Config{
		Connect:           func(n string) { record("connect", n, "", "") },
		Reset:             func(n string) { record("reset", n, "", "") },
		Sync:              func(n string) { record("sync", n, "", "") },
		ConnectError:      func(n string, e error) { record("connecterror", n, "", e.Error()) },
		MonitorError:      func(n string, e error) { record("monitorerror", n, "", e.Error()) },
		Timeout:           time.Duration(sc.DialToNs),
		ReceiveTimeout:    time.Duration(sc.RecvToNs),
		ConnectionManager: &recCM{inner: cm, w: w},
		Update: func(n string, no *gpb.Notification) {
			id := ""
			if len(no.GetUpdate()) > 0 {
				id = no.GetUpdate()[0].GetVal().GetStringVal()
			}
			record("update", n, id, "")
		},
	})
	if err != nil {
		x.Violate("C13/setup", "%v", err)
		return
	}
	tproto := func(t Target) *tpb.Target {
		p := &tpb.Target{Addresses: []string{addr(t.Server)}}
		if t.Alt > 0 {
			p.Addresses = append(p.Addresses, addr(t.Alt-1))
		}
		if t.RecvToNs > 0 {
			p.Meta = map[string]string{"receive_timeout": time.Duration(t.RecvToNs).String()}
		}
		if t.BadRecvTo {
			p.Meta = map[string]string{"receive_timeout": "soon"}
		}
		return p
	}
	req := &gpb.SubscribeRequest{Request: &gpb.SubscribeRequest_Subscribe{Subscribe: &gpb.SubscriptionList{Prefix: &gpb.Path{Origin: "oc"},
		Subscription: []*gpb.Subscription{{Path: &gpb.Path{}}}}}}

	acts := make([][]*actRec, len(sc.Actors)+1)
	do := func(ai int, a Act) {
		r := &actRec{act: a, inv: simrt.Stamp()}
		acts[ai] = append(acts[ai], r)
		t := sc.Targets[a.T%len(sc.Targets)]
		var err error
		switch a.K {
		case "add", "add-dup":
			err = mgr.Add(t.Name, tproto(t), req)
		case "remove":
			err = mgr.Remove(t.Name)
		case "reconnect":
			err = mgr.Reconnect(t.Name)
		case "remove-unknown":
			err = mgr.Remove("nosuch")
		case "reconnect-unknown":
			err = mgr.Reconnect("nosuch")
		}
		r.ret, r.retNs, r.returned = simrt.Stamp(), int64(x.R.Now()), true
		if err != nil {
			r.err = err.Error()
		}
	}
	var actorTasks []*simrt.Task
	actorTasks = append(actorTasks, x.R.Go("init", func() {
		for _, ti := range sc.InitiallyAdd {
			do(len(sc.Actors), Act{K: "add", T: ti})
		}
	}))
	for ai := range sc.Actors {
		ai := ai
		actorTasks = append(actorTasks, x.R.Go(fmt.Sprintf("actor%d", ai), func() {
			for _, a := range sc.Actors[ai] {
				if a.WaitNs > 0 {
					simrt.Sleep(time.Duration(a.WaitNs))
				} else {
					simrt.Yield("actor")
				}
				do(ai, a)
			}
		}))
	}
	// Chaos until quiescence, or until the horizon (virtual time / steps):
	// scripted sessions cycle forever, so most runs never go quiet.
	horizon := 3 * time.Minute
	out := x.R.Schedule(false, func() bool { return x.R.Now() > horizon || x.R.Steps > 5000 })
	x.R.AcquireEnd()
	if out == simrt.StepLimit {
		x.Inconclusive = "step-limit"
		return
	}
	if out == simrt.Stopped {
		// let the actors finish their scripts (their waits are bounded by a minute each)
		out = x.R.Schedule(true, func() bool {
			for _, t := range actorTasks {
				if !x.R.TaskDone(t) {
					return x.R.Steps > 30000
				}
			}
			return true
		})
		x.R.AcquireEnd()
	}
	// All actors must have finished (Remove returns).
	var stuck []string
	for _, t := range actorTasks {
		if !x.R.TaskDone(t) {
			stuck = append(stuck, x.R.TaskState(t))
		}
	}
	if len(stuck) > 0 {
		if x.R.Steps > 30000 {
			x.Inconclusive = "actors-not-finished-within-budget"
			return
		}
		x.Violate("C13/call-never-returned", "a manager call is still blocked although nothing else can happen: %v\nall tasks: %s\n%s", stuck, x.R.Summary(), w.dump(acts))
		return
	}
	quietNs := int64(x.R.Now())
	w.judge(x, acts, quietNs, out == simrt.Quiescent)
	// Teardown: remove everything, stop servers; no goroutine of the manager may remain.
	x.R.Go("cleanup", func() {
		for _, t := range sc.Targets {
			r := &actRec{act: Act{K: "remove", T: 0}, inv: simrt.Stamp()}
			mgr.Remove(t.Name)
			r.ret = simrt.Stamp()
		}
		for _, gs := range gsrvs {
			gs.Stop()
		}
	})
	out = x.R.Schedule(true, nil)
	x.R.AcquireEnd()
	if out == simrt.StepLimit {
		x.Inconclusive = "step-limit"
		return
	}
	if out != simrt.AllDone {
		x.Violate("C13/goroutine-leak", "after removing every target and stopping the servers these tasks remain: %v", x.R.Unfinished())
		return
	}
	// Every connection the shared connection manager dialled for the targets
	// is closed once all of them are removed (every holder has released it).
	x.Oblige(1)
	if c, d := atomic.LoadInt64(&simgrpc.Stats.Closes), atomic.LoadInt64(&simgrpc.Stats.Connected); c != d {
		msg := fmt.Sprintf("%d connection(s) were established for the managed targets but %d were closed after every target was removed: a reference was never released\n%s", d, c, w.dump(acts))
		x.Violate("C16/connection-not-closed-after-all-targets-removed", "%s", msg)
		x.Violate("C13/connection-not-closed-after-all-targets-removed", "%s", msg)
		return
	}
	finalStamp := simrt.Stamp()
	// nothing after the final removes
	var late []cb
	for _, cs := range w.cbs {
		for _, c := range cs {
			if c.stamp > finalStamp {
				late = append(late, c)
			}
		}
	}
	if len(late) > 0 {
		x.Violate("C13/callback-after-remove", "callbacks after the final Remove: %+v", late)
	}
}

func (w *world) dump(acts [][]*actRec) string {
	type ev struct {
		stamp int64
		s     string
	}
	var evs []ev
	for _, cs := range w.cbs {
		for _, c := range cs {
			evs = append(evs, ev{c.stamp, fmt.Sprintf("t=%v callback %s(%s) %s %s", time.Duration(c.ns), c.kind, c.name, c.id, c.err)})
		}
	}
	for _, as := range acts {
		for _, a := range as {
			evs = append(evs, ev{a.inv, fmt.Sprintf("call %s(%s) invoked", a.act.K, w.sc.Targets[a.act.T%len(w.sc.Targets)].Name)})
			if a.returned {
				evs = append(evs, ev{a.ret, fmt.Sprintf("call %s(%s) returned err=%q", a.act.K, w.sc.Targets[a.act.T%len(w.sc.Targets)].Name, a.err)})
			}
		}
	}
	for _, ss := range w.sess {
		for _, s := range ss {
			if s.gotReq.Load() {
				evs = append(evs, ev{s.reqStamp.Load(), fmt.Sprintf("server %d session %d for %q got request", s.server, s.seq, s.Target())})
			}
			if !s.open.Load() {
				evs = append(evs, ev{s.endStamp.Load(), fmt.Sprintf("server %d session %d ended (%s) after sending %v", s.server, s.seq, s.EndKind(), s.Sent())})
			}
		}
	}
	for _, ds := range w.dials {
		for _, d := range ds {
			evs = append(evs, ev{d.stamp, fmt.Sprintf("t=%v dial %s (%s) started", time.Duration(d.ns), d.addr, d.kind)})
		}
	}
	for _, as := range w.attempts {
		for _, a := range as {
			evs = append(evs, ev{a.stamp, fmt.Sprintf("t=%v attempt of %s starts (connection requested)", time.Duration(a.ns), a.name)})
		}
	}
	sort.Slice(evs, func(i, j int) bool { return evs[i].stamp < evs[j].stamp })
	var sb strings.Builder
	for _, e := range evs {
		fmt.Fprintf(&sb, "  [%d] %s\n", e.stamp, e.s)
	}
	return sb.String()
}

func addrOf(i int) string { return fmt.Sprintf("10.0.0.%d:%d", i+1, 9000+i) }

func (w *world) judge(x *common.Exec, acts [][]*actRec, quietNs int64, atQuiescence bool) {
	sc := w.sc
	var cbs []cb
	for _, cs := range w.cbs {
		cbs = append(cbs, cs...)
	}
	sort.Slice(cbs, func(i, j int) bool { return cbs[i].stamp < cbs[j].stamp })
	var sess []*sessRec
	for _, ss := range w.sess {
		sess = append(sess, ss...)
	}
	var all []*actRec
	for _, as := range acts {
		all = append(all, as...)
	}
	sort.Slice(all, func(i, j int) bool { return all[i].inv < all[j].inv })
	x.NonTrivial = len(cbs) > 0 && len(all) > 0
	hh := fnv.New64a()
	fmt.Fprint(hh, len(cbs), len(sess))
	x.StateHash = hh.Sum64()
	dump := func() string { return w.dump(acts) }

	// ---- faults that actually fired (evidence)
	for _, se := range sess {
		if k := se.EndKind(); k != "" {
			x.Fault("stream-ended:" + k)
		}
		for i := 0; i < int(se.nSent.Load()) && i < len(se.msgs); i++ {
			switch se.msgs[i].K {
			case "errresp", "nilresp":
				x.Fault("peer-message:" + se.msgs[i].K)
			}
			if se.msgs[i].DelayNs > 0 {
				x.Fault("message-delayed")
			}
		}
	}
	for _, ds := range w.dials {
		for _, d := range ds {
			if d.kind != "ok" {
				x.Fault("dial:" + d.kind)
			}
		}
	}
	for _, a := range all {
		switch a.act.K {
		case "remove", "reconnect", "add":
			if a.returned && a.err == "" {
				x.Fault("manager-call:" + a.act.K)
			}
		default:
			x.Fault("manager-call-refusable:" + a.act.K)
		}
	}
	for _, c := range cbs {
		if c.kind == "monitorerror" || c.kind == "connecterror" {
			x.Fault("callback:" + c.kind)
		}
	}
	for _, t := range sc.Targets {
		if t.Alt > 0 {
			x.Fault("target-with-two-next-hop-addresses")
		}
	}

	// ---- a stream is given up by the manager only for a cause: a Remove or
	// Reconnect call for that target, or silence for at least the receive
	// timeout in force (the watchdog is armed after the latest message was
	// received, hence after it was sent).
	for _, se := range sess {
		if se.open.Load() || se.EndKind() != "cancelled" || !se.gotReq.Load() {
			continue
		}
		x.Oblige(1)
		name := se.Target()
		caused := false
		// the stream exists on the manager's side from the start of the
		// attempt that opened it (the server sees the request later)
		attempt := int64(0)
		for _, as := range w.attempts {
			for _, a := range as {
				if a.name == name && a.stamp < se.reqStamp.Load() && a.stamp > attempt {
					attempt = a.stamp
				}
			}
		}
		for _, a := range all {
			if sc.Targets[a.act.T%len(sc.Targets)].Name != name {
				continue
			}
			switch a.act.K {
			case "remove", "reconnect":
				if a.inv < se.endStamp.Load() && (!a.returned || a.ret > attempt) {
					caused = true
				}
			}
		}
		if caused {
			continue
		}
		var eff int64 = sc.RecvToNs
		for _, t := range sc.Targets {
			if t.Name == name && t.RecvToNs > 0 && !t.BadRecvTo {
				eff = t.RecvToNs
			}
		}
		// the longest silence of the stream before it was given up (a watchdog
		// that has fired may be held up before it takes effect, so an earlier
		// silence counts too)
		silent := int64(0)
		ts := append(append([]int64(nil), se.times...), se.endNs.Load())
		for i := 1; i < len(ts); i++ {
			if d := ts[i] - ts[i-1]; d > silent {
				silent = d
			}
		}
		if eff <= 0 || silent < eff {
			x.Violate("C13/stream-given-up-without-cause", "the manager cancelled the stream of %s (server %d session %d, sent %v) although it was never silent for longer than %v, with no Remove or Reconnect call for that target under way; receive timeout in force: %v\n%s", name, se.server, se.seq, se.Sent(), time.Duration(silent), time.Duration(eff), dump())
			return
		}
	}

	// ---- refused calls: duplicate Add, unknown Remove / Reconnect.
	nameOf := func(a *actRec) string { return sc.Targets[a.act.T%len(sc.Targets)].Name }
	isAdd := func(a *actRec) bool { return (a.act.K == "add" || a.act.K == "add-dup") && a.err == "" && a.returned }
	isRm := func(a *actRec) bool { return a.act.K == "remove" && a.err == "" && a.returned }
	// managedAt reports what is certain about name during [from, to]:
	// managed (some Add certainly took effect before and no Remove can have
	// come after it), unsure (anything overlapping or ambiguous), or neither
	// (certainly not managed).
	managedAt := func(name string, from, to int64, self *actRec) (managed, unsure bool) {
		for _, b := range all {
			if b != self && nameOf(b) == name && (b.act.K == "add" || b.act.K == "add-dup" || b.act.K == "remove") && (!b.returned || b.ret > from) && b.inv < to {
				return false, true // overlaps the interval
			}
		}
		// everything else is strictly before `from` or after `to`: replay the ones before in real-time order where possible
		var before []*actRec
		for _, b := range all {
			if b != self && nameOf(b) == name && (isAdd(b) || isRm(b)) && b.ret < from {
				before = append(before, b)
			}
		}
		sort.Slice(before, func(i, j int) bool { return before[i].inv < before[j].inv })
		for i := 0; i+1 < len(before); i++ {
			if before[i].ret > before[i+1].inv {
				return false, true // concurrent successful add/remove earlier: order unknown
			}
		}
		for _, b := range before {
			managed = isAdd(b)
		}
		return managed, false
	}
	for _, a := range all {
		x.Oblige(1)
		name := sc.Targets[a.act.T%len(sc.Targets)].Name
		switch a.act.K {
		case "remove-unknown", "reconnect-unknown":
			if a.err == "" {
				x.Violate("C13/unknown-target-accepted", "%s on a target that was never added succeeded\n%s", a.act.K, dump())
			}
		case "add", "add-dup":
			m, unsure := managedAt(name, a.inv, a.ret, a)
			if m && !unsure && a.err == "" {
				x.Violate("C13/duplicate-add-accepted", "Add(%s) at %d succeeded although the target was already managed\n%s", name, a.inv, dump())
			}
			if !m && !unsure && a.err != "" {
				concurrent := false
				for _, b := range all {
					if b != a && sc.Targets[b.act.T%len(sc.Targets)].Name == name && b.ret > a.inv && b.inv < a.ret {
						concurrent = true
					}
				}
				if !concurrent {
					x.Violate("C13/add-refused", "Add(%s) at %d failed (%s) although the target was not managed\n%s", name, a.inv, a.err, dump())
				}
			}
		case "remove":
			m, unsure := managedAt(name, a.inv, a.ret, a)
			if !m && !unsure && a.err == "" {
				x.Violate("C13/unknown-target-accepted", "Remove(%s) at %d succeeded although the target was not managed\n%s", name, a.inv, dump())
			}
		}
	}
	// ---- silence after Remove: no callback for name stamped after a successful
	// Remove returned and before the next Add of that name was invoked.
	for _, r := range all {
		if r.act.K != "remove" || r.err != "" || !r.returned {
			continue
		}
		name := sc.Targets[r.act.T%len(sc.Targets)].Name
		nextAdd := int64(1 << 62)
		for _, a := range all {
			// the next incarnation: any Add of that name that had not returned when Remove returned
			if (a.act.K == "add" || a.act.K == "add-dup") && sc.Targets[a.act.T%len(sc.Targets)].Name == name && (!a.returned || a.ret > r.ret) && a.inv < nextAdd {
				nextAdd = a.inv
			}
		}
		for _, c := range cbs {
			x.Oblige(1)
			if c.name == name && c.stamp > r.ret && c.stamp < nextAdd {
				x.Violate("C13/callback-after-remove", "callback %s(%s) at %d although Remove(%s) returned at %d and the next Add was invoked at %d\n%s", c.kind, name, c.stamp, name, r.ret, nextAdd, dump())
				return
			}
		}
	}
	// ---- per-target session automaton.
	for _, t := range sc.Targets {
		connected := false
		var cur *sessRec // session the current Connect belongs to (identified by the first update seen)
		idx := 0         // next expected message index within cur
		var pendingErr int
		for _, c := range cbs {
			if c.name != t.Name {
				continue
			}
			x.Oblige(1)
			switch c.kind {
			case "connect":
				if connected {
					x.Violate("C13/connect-without-reset", "Connect(%s) at %d while the previous session had not been Reset\n%s", t.Name, c.stamp, dump())
					return
				}
				connected, cur, idx = true, nil, 0
			case "update", "sync":
				if !connected {
					x.Violate("C13/update-outside-session", "%s(%s) at %d outside a Connect..Reset session\n%s", c.kind, t.Name, c.stamp, dump())
					return
				}
				if c.kind == "update" && c.id != "" {
					// find the session this id belongs to
					var srv, seq, i int
					var k string
					fmt.Sscanf(strings.Replace(c.id, ":", " ", 1), "s%d.%d.%d %s", &srv, &seq, &i, &k)
					var owner *sessRec
					for _, s := range sess {
						if s.server == srv && s.seq == seq {
							owner = s
						}
					}
					if owner == nil || owner.Target() != t.Name {
						x.Violate("C13/update-from-foreign-stream", "Update(%s) delivered message %s which was sent on a stream opened for %v\n%s", t.Name, c.id, owner, dump())
						return
					}
					if cur == nil {
						cur = owner
					} else if cur != owner {
						x.Violate("C13/sessions-mixed", "Update(%s) %s belongs to another stream than the earlier updates of this session\n%s", t.Name, c.id, dump())
						return
					}
					if i < idx {
						x.Violate("C13/update-order", "Update(%s) %s delivered out of stream order\n%s", t.Name, c.id, dump())
						return
					}
					idx = i + 1
				}
			case "reset":
				connected, cur = false, nil
				pendingErr++
			case "connecterror":
				// failed attempts only: never while a session is connected
				if connected {
					x.Violate("C13/connecterror-during-session", "ConnectError(%s) at %d while the session is connected (no Reset yet)\n%s", t.Name, c.stamp, dump())
					return
				}
			}
		}
		// Connect only after the first message of a stream: #connects <= #streams of this target that sent >= 1 message
		nConnect, nWithMsg, nReset, nReq := 0, 0, 0, 0
		for _, c := range cbs {
			if c.name == t.Name && c.kind == "connect" {
				nConnect++
			}
			if c.name == t.Name && c.kind == "reset" {
				nReset++
			}
		}
		nOpenReq := 0
		for _, s := range sess {
			if s.Target() == t.Name {
				// a session that is still open may be in the middle of a Send the
				// client has already received
				if s.nSent.Load() > 0 || s.open.Load() && len(s.msgs) > 0 {
					nWithMsg++
				}
				if s.gotReq.Load() {
					nReq++
					if s.open.Load() {
						nOpenReq++
					}
				}
			}
		}
		x.Oblige(2)
		if nConnect > nWithMsg {
			x.Violate("C13/connect-before-first-message", "%d Connect(%s) callbacks but only %d stream(s) of that target delivered a message\n%s", nConnect, t.Name, nWithMsg, dump())
			return
		}
		// Every stream that ended is followed by exactly one Reset. Streams
		// known to the server (request received) and ended: lower bound; all
		// streams opened (incl. those whose request was still buffered): upper.
		ended := nReq - nOpenReq
		opened := 0
		for _, s := range sess {
			if s.Target() == t.Name || !s.gotReq.Load() {
				opened++
			}
		}
		if nReset < ended-0 && atQuiescence {
			x.Violate("C13/missing-reset", "%d stream(s) of %s ended but only %d Reset callback(s)\n%s", ended, t.Name, nReset, dump())
			return
		}
		if nReset > opened {
			x.Violate("C13/extra-reset", "%d Reset(%s) callbacks for %d stream(s)\n%s", nReset, t.Name, opened, dump())
			return
		}
		// Liveness: while managed, an attempt is in progress at quiescence.
		if atQuiescence {
			last := int64(1 << 61)
			m, unsure := managedAt(t.Name, last, last+1, nil)
			if m && !unsure {
				x.Oblige(1)
				lastAttempt, lastErr := int64(-1), int64(-1)
				for _, as := range w.attempts {
					for _, a := range as {
						if a.name == t.Name && a.stamp > lastAttempt {
							lastAttempt = a.stamp
						}
					}
				}
				for _, c := range cbs {
					if c.name == t.Name && c.kind == "monitorerror" && c.stamp > lastErr {
						lastErr = c.stamp
					}
				}
				// Receive timeout: with a positive timeout in force for this
				// target (its own receive_timeout, else the manager's), nothing
				// being able to happen any more means no watchdog is pending:
				// the target must not be sitting in a stream that fell silent.
				eff := sc.RecvToNs
				if t.RecvToNs > 0 && !t.BadRecvTo {
					eff = t.RecvToNs
				}
				if eff > 0 {
					for _, se := range sess {
						if se.Target() == t.Name && se.open.Load() && se.gotReq.Load() && int(se.nSent.Load()) == len(se.msgs) {
							x.Violate("C13/silent-stream-never-timed-out", "target %s is managed with a receive timeout of %v, its stream (server %d session %d) has been silent since it sent %v, and nothing can happen any more (virtual time %v): the silence was never treated as a failed session\n%s", t.Name, time.Duration(eff), se.server, se.seq, se.Sent(), time.Duration(quietNs), dump())
							return
						}
					}
				}
				inProgress := lastAttempt > lastErr
				if !inProgress {
					x.Violate("C13/retry-stopped", "target %s is managed but at quiescence (virtual time %v, no timer within 10 minutes) its last attempt has failed and no new one was started: retries have stopped\n%s", t.Name, time.Duration(quietNs), dump())
					return
				}
			}
		}
	}
	// ---- a managed target is never abandoned: at the judgement point it has
	// an open stream, or a dial for its address is in flight, or its latest sign
	// of life (attempt started, stream ended, error reported) is younger than the
	// back-off maximum.
	for ti, t := range sc.Targets {
		last := int64(1 << 61)
		if m, unsure := managedAt(t.Name, last, last+1, nil); !m || unsure {
			continue
		}
		x.Oblige(1)
		alive := false
		lastLife := int64(-1)
		for _, se := range sess {
			if se.Target() != t.Name {
				continue
			}
			if se.open.Load() {
				alive = true
			}
			if v := se.endNs.Load(); v > lastLife {
				lastLife = v
			}
			if v := se.reqNs.Load(); v > lastLife {
				lastLife = v
			}
		}
		for _, ds := range w.dials {
			for _, d := range ds {
				if d.addr != addrOf(sc.Targets[ti].Server) && (sc.Targets[ti].Alt == 0 || d.addr != addrOf(sc.Targets[ti].Alt-1)) {
					continue
				}
				if d.end.Load() == 0 || d.kind == "ok" && quietNs <= d.until+int64(time.Second) {
					alive = true
				}
				if v := d.endNs.Load(); v > lastLife {
					lastLife = v // a dial for its address has just ended: the outcome may still be on its way
				}
			}
		}
		for _, as := range w.attempts {
			for _, a := range as {
				if a.name == t.Name && a.ns > lastLife {
					lastLife = a.ns
				}
			}
		}
		for _, c := range cbs {
			if c.name == t.Name && c.ns > lastLife {
				lastLife = c.ns
			}
		}
		for _, a := range all {
			if isAdd(a) && nameOf(a) == t.Name && a.retNs > lastLife {
				lastLife = a.retNs // freshly added: its first attempt may not have begun
			}
		}
		if !alive && lastLife >= 0 && quietNs-lastLife > sc.MaxNs+int64(time.Second) {
			x.Violate("C13/target-abandoned", "target %s is managed, but it has no open stream, no dial in flight, and its latest sign of life is %v old (RetryMaxDelay %v): nobody is retrying it\n%s", t.Name, time.Duration(quietNs-lastLife), time.Duration(sc.MaxNs), dump())
			return
		}
	}
	// ---- back-off bound: after MonitorError the next dial for that target's address starts within RetryMaxDelay.
	for _, c := range cbs {
		if c.kind != "monitorerror" {
			continue
		}
		var tg *Target
		for i := range sc.Targets {
			if sc.Targets[i].Name == c.name {
				tg = &sc.Targets[i]
			}
		}
		if tg == nil {
			continue
		}
		// only when the target stays managed long enough
		removedSoon := false
		for _, a := range all {
			if a.act.K == "remove" && sc.Targets[a.act.T%len(sc.Targets)].Name == c.name && (!a.returned || a.ret > c.stamp) {
				removedSoon = true // the callback belongs to an incarnation that is being (or will be) removed
			}
		}
		if removedSoon {
			continue
		}
		// the next attempt of this target = its next request to the connection manager
		next := int64(-1)
		for _, as := range w.attempts {
			for _, a := range as {
				if a.name == c.name && a.stamp > c.stamp && (next < 0 || a.ns < next) {
					next = a.ns
				}
			}
		}
		x.Oblige(1)
		if next < 0 && quietNs-c.ns > sc.MaxNs+int64(time.Millisecond) {
			x.Violate("C13/retry-stopped", "after MonitorError(%s) at %v no further attempt was started although the target stayed managed and %v have passed (RetryMaxDelay %v): retries have stopped\n%s", c.name, time.Duration(c.ns), time.Duration(quietNs-c.ns), time.Duration(sc.MaxNs), dump())
			return
		}
		if next >= 0 && next-c.ns > sc.MaxNs+int64(time.Millisecond) {
			x.Violate("C13/backoff-exceeds-max", "after MonitorError(%s) at %v the next attempt started at %v: gap %v > RetryMaxDelay %v\n%s", c.name, time.Duration(c.ns), time.Duration(next), time.Duration(next-c.ns), time.Duration(sc.MaxNs), dump())
			return
		}
	}
}

func (w *world) sessAll() []*sessRec {
	var out []*sessRec
	for _, ss := range w.sess {
		out = append(out, ss...)
	}
	return out
}
