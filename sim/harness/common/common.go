//go:build go1.25

// Package common is the worker side of every check: it generates scenarios
// from seeds, executes each one inside a synctest bubble under the simrt
// scheduler, collects coverage, shrinks and replays violations, and writes a
// JSON summary for the driver (bin/verif).
package common

import (
	"encoding/json"
	"fmt"
	"os"
	"path/filepath"
	"regexp"
	"runtime"
	"sort"
	"strconv"
	"strings"
	"testing"
	"testing/synctest"
	"time"

	"github.com/openconfig/gnmi/zzverif/simlog"
	"github.com/openconfig/gnmi/zzverif/simrt"
)

// Harness is implemented by each component harness.
type Harness interface {
	Name() string
	// Generate draws a scenario for checking prop. The scenario must be a
	// pointer to a JSON-serialisable struct.
	Generate(rng *simrt.Rand, prop, tier string) (scenario any, cfg simrt.Config)
	// Decode parses a scenario from a replay file.
	Decode(b []byte) (any, error)
	// Execute runs the scenario; it is called on the root goroutine of a
	// fresh bubble with a fresh Run.
	Execute(x *Exec, scenario any)
	// Shrinks returns simpler variants of the scenario, most aggressive first.
	Shrinks(scenario any) []any
}

// Violation is one oracle failure.
type Violation struct {
	Sig    string `json:"sig"`
	Detail string `json:"detail"`
}

// Exec is the per-run context handed to a harness.
type Exec struct {
	R          *simrt.Run
	Prop       string
	Tier       string
	Viol       []Violation
	Faults     map[string]int64
	Probes     map[string]int64
	NonTrivial bool
	// Obligations counts oracle clauses actually evaluated.
	Obligations int64
	// StateHash identifies the abstract model state at the end of the run.
	StateHash    uint64
	Inconclusive string
	Note         string
	// Post functions run after the bubble has ended (real time and real
	// goroutines available: linearizability checking goes here).
	Post []func(x *Exec)
}

// Violate records an oracle failure. sig must start with the property id.
func (x *Exec) Violate(sig, format string, args ...any) {
	for _, v := range x.Viol {
		if v.Sig == sig {
			return
		}
	}
	d := fmt.Sprintf(format, args...)
	if len(d) > 4000 {
		d = d[:4000] + "..."
	}
	x.Viol = append(x.Viol, Violation{Sig: sig, Detail: d})
}

// Fault counts an injected fault that actually fired.
func (x *Exec) Fault(kind string) { x.Faults[kind]++ }

// Probe counts a reached condition (harness goroutine only).
func (x *Exec) Probe(name string) { x.Probes[name]++ }

// Oblige counts an evaluated oracle clause.
func (x *Exec) Oblige(n int) { x.Obligations += int64(n) }

// Result of one simulated run.
type Result struct {
	Viol         []Violation
	Steps        int64
	SimNs        int64
	TraceHash    uint64
	StateHash    uint64
	Faults       map[string]int64
	Probes       map[string]int64
	NonTrivial   bool
	Obligations  int64
	Tapes        *simrt.TapeSet
	Leaked       int
	Tasks        int
	Inconclusive string
	Machinery    string
	Trace        []string
	Strategy     string
}

var repoFrame = regexp.MustCompile(`github\.com/openconfig/gnmi/([A-Za-z0-9_/]+)\.((?:\(\*?[A-Za-z0-9_]+(?:\[[^\]]*\])?\)\.)?[A-Za-z0-9_]+(?:\.func[0-9.]+|\.[A-Za-z0-9_]+)*)\(`)

// panicSite extracts the innermost repository (non-simulator) function from
// a stack trace.
func panicSite(stack string) (site string, inHarnessOnly bool) {
	first := ""
	for _, ln := range strings.Split(stack, "\n") {
		m := repoFrame.FindStringSubmatch(ln)
		if m == nil {
			continue
		}
		pkg, fn := m[1], m[2]
		if strings.HasPrefix(pkg, "zzverif/") {
			if first == "" {
				first = pkg + "." + fn
			}
			continue
		}
		return pkg + "." + fn, false
	}
	return first, true
}

var digits = regexp.MustCompile(`[0-9]+`)
var hexaddr = regexp.MustCompile(`0x[0-9a-f]+`)

func normPanic(v string) string {
	if strings.HasPrefix(v, "interface conversion") {
		return "interface conversion"
	}
	v = hexaddr.ReplaceAllString(v, "0x?")
	v = digits.ReplaceAllString(v, "N")
	if i := strings.Index(v, "\n"); i >= 0 {
		v = v[:i]
	}
	if len(v) > 90 {
		v = v[:90]
	}
	return v
}

// RunOne executes one scenario in a fresh bubble.
func RunOne(t *testing.T, h Harness, prop, tier string, sc any, cfg simrt.Config, seed uint64, replay *simrt.TapeSet, trace bool) (res *Result) {
	res = &Result{Strategy: cfg.Strategy, Faults: map[string]int64{}, Probes: map[string]int64{}}
	// Hostile-peer runs (C12): a third of them with verbose logging on (-v=2), so
	// that the code which formats a peer's messages only for the log runs too.
	// A function of the property and the seed: replays reproduce it.
	simlog.Verbosity = 0
	if prop == "C12" && seed%3 == 0 {
		simlog.Verbosity = 2
	}
	defer func() { simlog.Verbosity = 0 }()
	raceBefore := simrt.RaceErrors()
	var xx *Exec
	defer func() {
		if xx == nil || res.Machinery != "" {
			return
		}
		for _, f := range xx.Post {
			f(xx)
		}
		res.Viol = xx.Viol
		res.Obligations = xx.Obligations
		res.Inconclusive = xx.Inconclusive
		res.NonTrivial = xx.NonTrivial
		for k, v := range xx.Probes {
			res.Probes[k] = v
		}
	}()
	func() {
		defer func() {
			if v := recover(); v != nil {
				s := fmt.Sprint(v)
				if strings.Contains(s, "deadlock") && strings.Contains(s, "bubble") {
					// goroutines of the run that could not be ended; counted as leaked.
					return
				}
				res.Machinery = "panic on harness goroutine: " + s + "\n" + string(stack())
			}
		}()
		// A sub-test per run: when the race detector reports inside a bubble
		// synctest fails the calling test with FailNow; that must end only
		// this run, not the worker loop.
		t.Run("run", func(t *testing.T) {
			defer func() {
				if v := recover(); v != nil {
					s := fmt.Sprint(v)
					if strings.Contains(s, "deadlock") && strings.Contains(s, "bubble") {
						return
					}
					panic(v)
				}
			}()
			runBubble(t, h, prop, tier, sc, cfg, seed, replay, trace, res, &xx)
		})
	}()
	if n := simrt.RaceErrors() - raceBefore; n > 0 {
		for _, rr := range readRaceReports() {
			if rr.machinery {
				res.Machinery = "race report inside the simulator:\n" + rr.text
				continue
			}
			if rr.mapAccess && prop == "C12" {
				// Unsynchronised access to a Go map from two goroutines is not only a
				// data race: the runtime detects it (best effort) and kills the process
				// with "fatal error: concurrent map iteration and map write" / "concurrent
				// map writes", which no recover() can stop. A peer whose messages reach
				// both accesses can therefore crash the process (C12).
				v := Violation{Sig: "C12/fatal-concurrent-map-access/" + rr.sig, Detail: "two tasks access one Go map without synchronisation; in a real process the runtime aborts with `fatal error: concurrent map ...`\n" + rr.text}
				if xx != nil {
					xx.Viol = append(xx.Viol, v)
				}
				res.Viol = append(res.Viol, v)
			}
			rp := prop
			if rph, ok := h.(interface{ RaceProperty(string) string }); ok {
				rp = rph.RaceProperty(prop)
			}
			if rp == "" {
				// no listed property states race freedom for this component:
				// recorded as an observation
				res.Probes["observation:race:"+rr.sig]++
				if xx != nil {
					xx.Probes["observation:race:"+rr.sig]++
				}
				continue
			}
			v := Violation{Sig: rp + "/race/" + rr.sig, Detail: rr.text}
			if xx != nil {
				xx.Viol = append(xx.Viol, v)
			}
			res.Viol = append(res.Viol, v)
		}
	}
	return res
}

func runBubble(t *testing.T, h Harness, prop, tier string, sc any, cfg simrt.Config, seed uint64, replay *simrt.TapeSet, trace bool, res *Result, pxx **Exec) {
	{
		synctest.Test(t, func(t *testing.T) {
			simrt.MapReset()
			r := simrt.NewRun(cfg, seed, replay)
			r.TraceOn = trace
			x := &Exec{R: r, Prop: prop, Tier: tier, Faults: map[string]int64{}, Probes: map[string]int64{}}
			*pxx = x
			func() {
				defer func() {
					if v := recover(); v != nil {
						s := fmt.Sprint(v)
						if strings.Contains(s, "deadlock") && strings.Contains(s, "bubble") {
							panic(v)
						}
						res.Machinery = "panic in harness Execute: " + s + "\n" + string(stack())
					}
				}()
				h.Execute(x, sc)
			}()
			res.Steps = r.Steps
			res.SimNs = int64(r.Now())
			res.TraceHash = r.TraceHash()
			res.Tapes = r.Tapes()
			res.Tasks = r.NumTasks()
			if r.TapeOverflow() && x.Inconclusive == "" {
				x.Inconclusive = "tape overflow"
			}
			res.Leaked = r.Teardown()
			if res.Leaked > 0 && os.Getenv("VERIF_DEBUG_LEAK") != "" {
				fmt.Fprintf(os.Stderr, "LEAK seed=%d: %v\n", seed, r.Unfinished())
				if os.Getenv("VERIF_DEBUG_LEAK") == "stacks" {
					buf := make([]byte, 1<<22)
					fmt.Fprintf(os.Stderr, "%s\n", buf[:runtime.Stack(buf, true)])
					os.Exit(3)
				}
			}
			for k, v := range r.Probes {
				x.Probes[k] += v
			}
			for _, p := range r.Panics {
				if strings.HasPrefix(p.Value, "EXIT(") {
					continue
				}
				site, harnessOnly := panicSite(p.Stack)
				if harnessOnly {
					res.Machinery = "panic in harness task " + p.Task + ": " + p.Value + "\n" + p.Stack
					continue
				}
				x.Violate(prop+"/panic/"+site+"/"+normPanic(p.Value), "task %s panicked: %s\n%s", p.Task, p.Value, p.Stack)
			}
			res.Viol = x.Viol
			res.Faults = x.Faults
			if simlog.Verbosity > 0 {
				res.Faults["verbose-logging-on"]++
			}
			res.Probes = x.Probes
			res.NonTrivial = x.NonTrivial
			res.Obligations = x.Obligations
			res.StateHash = x.StateHash
			res.Inconclusive = x.Inconclusive
			res.Trace = r.Trace
		})
	}
}

func stack() []byte {
	b := make([]byte, 8<<10)
	return b[:runtime.Stack(b, false)]
}

// ---------------------------------------------------------------- race log

type raceReport struct {
	sig       string
	text      string
	machinery bool
	mapAccess bool // one of the racing accesses is a Go map operation
}

var raceLogOffset int64

func raceLogPath() string {
	// GORACE=log_path=<p> makes the runtime write to <p>.<pid>
	for _, kv := range strings.Fields(os.Getenv("GORACE")) {
		if strings.HasPrefix(kv, "log_path=") {
			return strings.TrimPrefix(kv, "log_path=") + "." + strconv.Itoa(os.Getpid())
		}
	}
	return ""
}

var raceFrame = regexp.MustCompile(`^\s+([^\s]+)\(\)`)

func readRaceReports() []raceReport {
	p := raceLogPath()
	if p == "" {
		return []raceReport{{sig: "unknown", text: "race detected (no GORACE log_path configured)"}}
	}
	b, err := os.ReadFile(p)
	if err != nil || int64(len(b)) <= raceLogOffset {
		return []raceReport{{sig: "unknown", text: "race detected (log unreadable)"}}
	}
	txt := string(b[raceLogOffset:])
	raceLogOffset = int64(len(b))
	var out []raceReport
	for _, blk := range strings.Split(txt, "==================") {
		if !strings.Contains(blk, "WARNING: DATA RACE") {
			continue
		}
		// First repository frame of each of the two access stacks.
		var tops []string
		allSim := true
		mapAccess := false
		sections := regexp.MustCompile(`(?m)^(Read|Write|Previous read|Previous write|Atomic|Previous atomic)[^\n]*:$`).FindAllStringIndex(blk, -1)
		for i, se := range sections {
			end := len(blk)
			if i+1 < len(sections) {
				end = sections[i+1][0]
			}
			body := blk[se[1]:end]
			if j := strings.Index(body, "\n\n"); j >= 0 {
				body = body[:j]
			}
			top := ""
			firstFrame := true
			for _, ln := range strings.Split(body, "\n") {
				m := raceFrame.FindStringSubmatch(ln)
				if m == nil {
					continue
				}
				fn := m[1]
				if firstFrame {
					firstFrame = false
					if strings.HasPrefix(fn, "runtime.map") || strings.HasPrefix(fn, "internal/runtime/maps.") {
						mapAccess = true
					}
				}
				if !strings.Contains(fn, "github.com/openconfig/gnmi/") {
					continue
				}
				fn = strings.TrimPrefix(fn, "github.com/openconfig/gnmi/")
				if strings.HasPrefix(fn, "zzverif/sim") {
					continue
				}
				if top == "" {
					top = fn
				}
				if !strings.HasPrefix(fn, "zzverif/") {
					allSim = false
					top = fn
					break
				}
			}
			if top != "" {
				tops = append(tops, top)
			}
		}
		sort.Strings(tops)
		rr := raceReport{sig: strings.Join(tops, "|"), text: strings.TrimSpace(blk), mapAccess: mapAccess}
		if len(rr.text) > 6000 {
			rr.text = rr.text[:6000]
		}
		if len(tops) == 0 || allSim {
			rr.machinery = true
		}
		out = append(out, rr)
	}
	return out
}

// ---------------------------------------------------------------- worker

// ViolOut is a reported violation.
type ViolOut struct {
	Sig    string `json:"sig"`
	Detail string `json:"detail"`
	Seed   uint64 `json:"seed"`
	Run    int64  `json:"run"`
	Replay string `json:"replay,omitempty"`
	Count  int    `json:"count"`
}

// WorkerOut is what one worker process reports to the driver.
type WorkerOut struct {
	Harness      string           `json:"harness"`
	Prop         string           `json:"prop"`
	Runs         int64            `json:"runs"`
	Steps        int64            `json:"steps"`
	SimNs        int64            `json:"sim_ns"`
	WallS        float64          `json:"wall_s"`
	NonTrivial   int64            `json:"nontrivial"`
	TraceHashes  []uint64         `json:"trace_hashes"`
	StateHashes  []uint64         `json:"state_hashes"`
	Faults       map[string]int64 `json:"faults"`
	Probes       map[string]int64 `json:"probes"`
	Strategies   map[string]int64 `json:"strategies"`
	Inconclusive map[string]int64 `json:"inconclusive"`
	Obligations  int64            `json:"obligations"`
	Leaked       int64            `json:"leaked_goroutines"`
	Tasks        int64            `json:"tasks"`
	Samples      []any            `json:"samples"`
	Violations   []*ViolOut       `json:"violations"`
	Machinery    []string         `json:"machinery"`
	Race         bool             `json:"race"`
	Complete     bool             `json:"complete"`
	DetHashes    []string         `json:"det_hashes,omitempty"`
}

// ReplayFile is the on-disk form of a violation.
type ReplayFile struct {
	Property  string          `json:"property"`
	Harness   string          `json:"harness"`
	Sig       string          `json:"sig"`
	Detail    string          `json:"detail"`
	BaseSeed  uint64          `json:"base_seed"`
	Run       int64           `json:"run"`
	Seed      uint64          `json:"seed"`
	Tier      string          `json:"tier"`
	Race      bool            `json:"race_build"`
	Cfg       simrt.Config    `json:"cfg"`
	Scenario  json.RawMessage `json:"scenario"`
	Tapes     *simrt.TapeSet  `json:"tapes"`
	TraceHash uint64          `json:"trace_hash"`
	Trace     []string        `json:"trace,omitempty"`
	Shrunk    string          `json:"shrunk,omitempty"`
}

func envInt(k string, def int64) int64 {
	if v := os.Getenv(k); v != "" {
		n, err := strconv.ParseInt(v, 10, 64)
		if err == nil {
			return n
		}
	}
	return def
}

func envU(k string, def uint64) uint64 {
	if v := os.Getenv(k); v != "" {
		n, err := strconv.ParseUint(v, 10, 64)
		if err == nil {
			return n
		}
	}
	return def
}

func hasSig(vs []Violation, sig string) *Violation {
	for i := range vs {
		if vs[i].Sig == sig {
			return &vs[i]
		}
	}
	return nil
}

// Main is the body of each harness's TestSim.
func Main(t *testing.T, h Harness) {
	if rp := os.Getenv("VERIF_REPLAY"); rp != "" {
		replayMain(t, h, rp)
		return
	}
	prop := os.Getenv("VERIF_PROP")
	if prop == "" {
		t.Skip("VERIF_PROP not set (run through bin/verif)")
	}
	tier := os.Getenv("VERIF_TIER")
	if tier == "" {
		tier = "quick"
	}
	base := envU("VERIF_BASE_SEED", 1)
	from, to := envInt("VERIF_RUN_FROM", 0), envInt("VERIF_RUN_TO", 100)
	stride := envInt("VERIF_RUN_STRIDE", 1)
	wall := time.Duration(envInt("VERIF_WALL_S", 30)) * time.Second
	outPath := os.Getenv("VERIF_OUT")
	replayDir := os.Getenv("VERIF_REPLAY_DIR")
	maxRuns := envInt("VERIF_MAX_RUNS", 1<<40)
	known := loadKnown(os.Getenv("VERIF_KNOWN"), prop)

	warmUp()
	out := &WorkerOut{Harness: h.Name(), Prop: prop, Faults: map[string]int64{}, Probes: map[string]int64{},
		Strategies: map[string]int64{}, Inconclusive: map[string]int64{}, Race: simrt.RaceEnabled}
	start := time.Now()
	bySig := map[string]*ViolOut{}
	flush := func(complete bool) {
		out.WallS = time.Since(start).Seconds()
		out.Complete = complete
		if outPath != "" {
			b, _ := json.Marshal(out)
			os.WriteFile(outPath+".tmp", b, 0o644)
			os.Rename(outPath+".tmp", outPath)
		}
	}
	lastFlush := time.Now()
	for i := from; i < to && out.Runs < maxRuns; i += stride {
		if time.Since(start) > wall {
			break
		}
		seed := simrt.Mix(base, uint64(i))
		rng := simrt.NewRand(seed)
		sc, cfg := h.Generate(rng, prop, tier)
		traceThis := os.Getenv("VERIF_TRACE_RUN") == strconv.FormatInt(i, 10)
		res := RunOne(t, h, prop, tier, sc, cfg, seed, nil, traceThis)
		if traceThis {
			os.WriteFile(os.Getenv("VERIF_OUT")+".trace", []byte(strings.Join(res.Trace, "\n")), 0o644)
		}
		out.Runs++
		if os.Getenv("VERIF_DET") != "" {
			var sigs []string
			for _, v := range res.Viol {
				sigs = append(sigs, v.Sig)
			}
			out.DetHashes = append(out.DetHashes, fmt.Sprintf("%x/%d/%d/%x/%v/%s", res.TraceHash, res.Steps, res.SimNs, res.StateHash, sigs, res.Inconclusive))
		}
		out.Steps += res.Steps
		out.SimNs += res.SimNs
		out.Obligations += res.Obligations
		out.Leaked += int64(res.Leaked)
		out.Tasks += int64(res.Tasks)
		out.Strategies[res.Strategy]++
		for k, v := range res.Faults {
			out.Faults[k] += v
		}
		for k, v := range res.Probes {
			out.Probes[k] += v
		}
		if res.Machinery != "" {
			if len(out.Machinery) < 5 {
				out.Machinery = append(out.Machinery, fmt.Sprintf("seed=%d run=%d: %s", seed, i, res.Machinery))
			}
			continue
		}
		if res.Inconclusive != "" {
			out.Inconclusive[res.Inconclusive]++
		}
		if res.NonTrivial {
			out.NonTrivial++
			out.TraceHashes = append(out.TraceHashes, res.TraceHash)
			out.StateHashes = append(out.StateHashes, res.StateHash)
		}
		if len(out.Samples) < 3 && res.NonTrivial {
			out.Samples = append(out.Samples, map[string]any{"run": i, "seed": seed, "cfg": cfg, "scenario": sc, "steps": res.Steps, "sim_ns": res.SimNs})
		}
		for _, v := range res.Viol {
			if vo := bySig[v.Sig]; vo != nil {
				vo.Count++
				continue
			}
			vo := &ViolOut{Sig: v.Sig, Detail: v.Detail, Seed: seed, Run: i, Count: 1}
			bySig[v.Sig] = vo
			out.Violations = append(out.Violations, vo)
			if !strings.HasPrefix(v.Sig, prop+"/") || known.match(v.Sig) {
				continue // other property's clause, or a listed finding: no replay file
			}
			rf := shrink(t, h, prop, tier, sc, cfg, seed, res, v)
			rf.BaseSeed, rf.Run = base, i
			if replayDir != "" {
				os.MkdirAll(replayDir, 0o755)
				name := fmt.Sprintf("%s-%d-%d-%s.json", prop, base, i, sigSlug(v.Sig))
				p := filepath.Join(replayDir, name)
				b, _ := json.MarshalIndent(rf, "", " ")
				if err := os.WriteFile(p, b, 0o644); err == nil {
					vo.Replay = p
				}
			}
			vo.Detail = rf.Detail
			flush(false)
		}
		if time.Since(lastFlush) > 5*time.Second {
			flush(false)
			lastFlush = time.Now()
		}
	}
	flush(true)
}

func sigSlug(s string) string {
	s = regexp.MustCompile(`[^A-Za-z0-9]+`).ReplaceAllString(s, "_")
	if len(s) > 60 {
		s = s[:60]
	}
	return s
}

type knownSet struct{ res []*regexp.Regexp }

func (k *knownSet) match(sig string) bool {
	if k == nil {
		return false
	}
	for _, r := range k.res {
		if r.MatchString(sig) {
			return true
		}
	}
	return false
}

// KnownFile mirrors /verif/known_findings.json.
type KnownFile struct {
	Findings []struct {
		Property  string `json:"property"`
		Signature string `json:"signature"` // regexp, anchored
		What      string `json:"what"`
	} `json:"findings"`
}

func loadKnown(path, prop string) *knownSet {
	if path == "" {
		return nil
	}
	b, err := os.ReadFile(path)
	if err != nil {
		return nil
	}
	var kf KnownFile
	if json.Unmarshal(b, &kf) != nil {
		return nil
	}
	ks := &knownSet{}
	for _, f := range kf.Findings {
		if f.Property != prop {
			continue
		}
		if re, err := regexp.Compile("^(?:" + f.Signature + ")$"); err == nil {
			ks.res = append(ks.res, re)
		}
	}
	return ks
}

// ---------------------------------------------------------------- shrinking

func shrink(t *testing.T, h Harness, prop, tier string, sc any, cfg simrt.Config, seed uint64, res *Result, v Violation) *ReplayFile {
	deadline := time.Now().Add(time.Duration(envInt("VERIF_SHRINK_S", 20)) * time.Second)
	best, bestCfg, bestTapes, bestRes := sc, cfg, res.Tapes, res
	note := ""
	tries := 0
	reproduces := func(cand any, c simrt.Config, tapes *simrt.TapeSet, s uint64) *Result {
		tries++
		r := RunOne(t, h, prop, tier, cand, c, s, tapes, false)
		if r.Machinery == "" && hasSig(r.Viol, v.Sig) != nil {
			return r
		}
		return nil
	}
	// Phase 1: simplify the scenario. Each candidate is tried with the
	// recorded tapes and with a few fresh schedules.
	improved := true
	for improved && time.Now().Before(deadline) {
		improved = false
		for _, cand := range h.Shrinks(best) {
			if time.Now().After(deadline) {
				break
			}
			var ok *Result
			if ok = reproduces(cand, bestCfg, bestTapes, seed); ok == nil {
				for k := uint64(0); k < 6 && ok == nil; k++ {
					ok = reproduces(cand, bestCfg, nil, simrt.Mix(seed, 1000+k))
				}
			}
			if ok != nil {
				best, bestTapes, bestRes = cand, ok.Tapes, ok
				improved = true
				break
			}
		}
	}
	// Phase 2: simplify the schedule: fewer context switches, no clock
	// advances, identity orders.
	zeroChunks := func(get func(*simrt.TapeSet) *[]int64) {
		cur := *get(bestTapes)
		for size := len(cur); size >= 1 && time.Now().Before(deadline); size /= 2 {
			for off := 0; off < len(cur) && time.Now().Before(deadline); off += size {
				allZero := true
				for i := off; i < off+size && i < len(cur); i++ {
					if cur[i] != 0 {
						allZero = false
					}
				}
				if allZero {
					continue
				}
				cand := cloneTapes(bestTapes)
				cs := *get(cand)
				for i := off; i < off+size && i < len(cs); i++ {
					cs[i] = 0
				}
				if ok := reproduces(best, bestCfg, cand, seed); ok != nil {
					bestTapes, bestRes = ok.Tapes, ok
					cur = *get(bestTapes)
				}
			}
		}
	}
	zeroChunks(func(ts *simrt.TapeSet) *[]int64 { return &ts.Clk })
	zeroChunks(func(ts *simrt.TapeSet) *[]int64 { return &ts.Ord })
	zeroChunks(func(ts *simrt.TapeSet) *[]int64 { return &ts.Sched })
	// Final: replay twice with tracing; must reproduce identically.
	r1 := RunOne(t, h, prop, tier, best, bestCfg, seed, bestTapes, true)
	r2 := RunOne(t, h, prop, tier, best, bestCfg, seed, bestTapes, false)
	if hasSig(r1.Viol, v.Sig) == nil || hasSig(r2.Viol, v.Sig) == nil || r1.TraceHash != r2.TraceHash {
		note = fmt.Sprintf("WARNING: minimised replay not stable (r1 sig=%v r2 sig=%v hash %x/%x); falling back to the original run", hasSig(r1.Viol, v.Sig) != nil, hasSig(r2.Viol, v.Sig) != nil, r1.TraceHash, r2.TraceHash)
		best, bestCfg, bestTapes = sc, cfg, res.Tapes
		r1 = RunOne(t, h, prop, tier, best, bestCfg, seed, bestTapes, true)
		bestRes = r1
	}
	detail := v.Detail
	if vv := hasSig(r1.Viol, v.Sig); vv != nil {
		detail = vv.Detail
	}
	scb, _ := json.Marshal(best)
	_ = bestRes
	return &ReplayFile{Property: prop, Harness: h.Name(), Sig: v.Sig, Detail: detail, Seed: seed, Tier: tier, Race: simrt.RaceEnabled,
		Cfg: bestCfg, Scenario: scb, Tapes: r1.Tapes, TraceHash: r1.TraceHash, Trace: tail(r1.Trace, 400),
		Shrunk: fmt.Sprintf("%d candidate executions; %s", tries, note)}
}

func tail(s []string, n int) []string {
	if len(s) > n {
		return s[len(s)-n:]
	}
	return s
}

func cloneTapes(t *simrt.TapeSet) *simrt.TapeSet {
	return &simrt.TapeSet{Sched: append([]int64(nil), t.Sched...), Ord: append([]int64(nil), t.Ord...), Clk: append([]int64(nil), t.Clk...)}
}

// ---------------------------------------------------------------- replay

// ReplayOut is printed (as JSON) by a replay.
type ReplayOut struct {
	Reproduced bool        `json:"reproduced"`
	SameTrace  bool        `json:"same_trace"`
	Sig        string      `json:"sig"`
	Detail     string      `json:"detail"`
	Got        []Violation `json:"got"`
	TraceHash  uint64      `json:"trace_hash"`
	Want       uint64      `json:"want_trace_hash"`
	Machinery  string      `json:"machinery,omitempty"`
}

func replayMain(t *testing.T, h Harness, path string) {
	b, err := os.ReadFile(path)
	if err != nil {
		t.Fatalf("replay: %v", err)
	}
	var rf ReplayFile
	if err := json.Unmarshal(b, &rf); err != nil {
		t.Fatalf("replay: %v", err)
	}
	sc, err := h.Decode(rf.Scenario)
	if err != nil {
		t.Fatalf("replay: decode scenario: %v", err)
	}
	warmUp()
	res := RunOne(t, h, rf.Property, rf.Tier, sc, rf.Cfg, rf.Seed, rf.Tapes, true)
	out := ReplayOut{Sig: rf.Sig, Got: res.Viol, TraceHash: res.TraceHash, Want: rf.TraceHash, Machinery: res.Machinery}
	if v := hasSig(res.Viol, rf.Sig); v != nil {
		out.Reproduced = true
		out.Detail = v.Detail
	}
	out.SameTrace = res.TraceHash == rf.TraceHash
	jb, _ := json.MarshalIndent(out, "", " ")
	if p := os.Getenv("VERIF_OUT"); p != "" {
		os.WriteFile(p, jb, 0o644)
	}
	if os.Getenv("VERIF_REPLAY_TRACE") != "" {
		for _, l := range res.Trace {
			fmt.Println(l)
		}
	}
	fmt.Println(string(jb))
}

var warmed bool

// WarmUpHooks are run once per process outside any bubble (harness packages
// register initialisers of lazily started dependencies here).
var WarmUpHooks []func()

func warmUp() {
	if warmed {
		return
	}
	warmed = true
	for _, f := range WarmUpHooks {
		f()
	}
}
