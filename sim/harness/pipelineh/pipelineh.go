//go:build go1.25

// Package pipelineh is the whole-system harness (C01, and the hostile-target
// part of C12): synthetic targets (the repository's fake agent in fixed mode)
// -> the shipped collector main package (re-packaged: manager, connection
// manager, the Update closure, cache, Subscribe server) -> simulated gRPC ->
// client/gnmi -> CacheClient, cli.QueryDisplay in every display mode, and the
// shipped gnmi_cli request construction (-q/-qt/-t flags, inline -proto,
// -proto_file). Faults: scheduling, flow-control windows, target crash and
// restart with a different state.
package pipelineh

import (
	"context"
	"crypto/ecdsa"
	"crypto/elliptic"
	"crypto/rand"
	"crypto/x509"
	"crypto/x509/pkix"
	"encoding/json"
	"encoding/pem"
	"flag"
	"fmt"
	"hash/fnv"
	"math"
	"math/big"
	"os"
	"path/filepath"
	"sort"
	"strings"
	"sync/atomic"
	"time"

	"github.com/openconfig/gnmi/cache"
	"github.com/openconfig/gnmi/cli"
	"github.com/openconfig/gnmi/client"
	gclient "github.com/openconfig/gnmi/client/gnmi"
	"github.com/openconfig/gnmi/cmd/gnmi_cli"
	"github.com/openconfig/gnmi/cmd/gnmi_collector"
	"github.com/openconfig/gnmi/latency"
	"github.com/openconfig/gnmi/manager"
	gpb "github.com/openconfig/gnmi/proto/gnmi"
	tpb "github.com/openconfig/gnmi/proto/target"
	fgnmi "github.com/openconfig/gnmi/testing/fake/gnmi"
	fpb "github.com/openconfig/gnmi/testing/fake/proto"
	"github.com/openconfig/gnmi/value"
	"github.com/openconfig/gnmi/zzverif/gen"
	"github.com/openconfig/gnmi/zzverif/harness/common"
	"github.com/openconfig/gnmi/zzverif/model/cachemodel"
	"github.com/openconfig/gnmi/zzverif/simgrpc"
	"github.com/openconfig/gnmi/zzverif/simnet"
	"github.com/openconfig/gnmi/zzverif/simrt"
	"google.golang.org/protobuf/encoding/prototext"
	"google.golang.org/protobuf/proto"
)

// TargetSpec is one configured target: one stream per session (a crash and
// restart starts the next session with its own stream).
type TargetSpec struct {
	Name     string        `json:"name"`
	Request  string        `json:"request"`
	Sessions [][]*gen.Noti `json:"sessions"`
	// Raw: a scripted endpoint that sends the stream verbatim (the fake agent
	// overwrites the prefix target with the subscribed name, so a target that
	// reports no or a wrong name needs this).
	Raw bool `json:"raw,omitempty"`
}

// Break is a target crash-and-restart at a virtual time.
type Break struct {
	AtNs   int64 `json:"at_ns"`
	Target int   `json:"target"`
}

type Scenario struct {
	Targets      []TargetSpec `json:"targets"`
	Requests     []string     `json:"requests"`
	Window       int          `json:"window"`
	MetaPeriodNs int64        `json:"meta_period_ns,omitempty"`
	Breaks       []Break      `json:"breaks,omitempty"`
	CLI          bool         `json:"cli"`
	Hostile      bool         `json:"hostile,omitempty"`
	Displays     []string     `json:"displays,omitempty"` // hostile runs: display types to exercise
	JSONVals     bool         `json:"json_vals,omitempty"`
	// Twins: per target, a second client with the same query that leaves
	// after LeaveNs of virtual time (0 = no twin); the first client must not
	// notice.
	Twins []int64 `json:"twins,omitempty"`
	// CLIPick selects the leaf and the depth of the partial subscription the
	// CLI forms are compared on.
	CLIPick int `json:"cli_pick,omitempty"`
	// TargetClockAhead: the targets' clocks run two hours ahead of the collector's
	// (their timestamps lie in the collector's future; legal, accepted by default).
	TargetClockAhead bool `json:"target_clock_ahead,omitempty"`
	// Bulk: every session ends with a long run of new leaves below one container.
	Bulk bool `json:"bulk,omitempty"`
	// ClientDelayNs: the clients subscribe this long after the collector started
	// (so that they arrive in the middle of a paced stream).
	ClientDelayNs int64 `json:"client_delay_ns,omitempty"`
	// BulkN: length of the list; a scripted (raw) target holds it back until the
	// client is about to subscribe and then sends it back to back.
	BulkN int `json:"bulk_n,omitempty"`
}

type H struct{}

func (H) Name() string { return "pipeline" }

func (H) RaceProperty(string) string { return "" }

func (H) Decode(b []byte) (any, error) {
	s := &Scenario{}
	return s, json.Unmarshal(b, s)
}

var c01Kinds = []string{"int", "int", "uint", "str", "bool", "dbl", "flt", "dec", "bytes", "ll"}

func genStream(rng *simrt.Rand, u *gen.Universe, target string, n int, jsonVals bool, ts *int64) []*gen.Noti {
	var out []*gen.Noti
	for i := 0; i < n; i++ {
		*ts += 1 + int64(rng.Intn(3))
		no := &gen.Noti{Target: "", TS: *ts}
		if rng.Chance(0.3) {
			no.Target = target
		}
		if rng.Chance(0.1) {
			no.Target = "wrong-name"
		}
		full := u.Leaves[rng.Intn(len(u.Leaves))]
		h := fnv.New32a()
		fmt.Fprint(h, full)
		hs := int(h.Sum32())
		cut := hs % (len(full) + 1)
		if cut == len(full) {
			cut = len(full) - 1
		}
		no.Origin = u.Origins[(hs/7)%len(u.Origins)]
		no.Prefix = append([]gen.Elem(nil), full[:cut]...)
		rest := append([]gen.Elem(nil), full[cut:]...)
		val := func() gen.Val {
			v := gen.RandVal(rng, false)
			v.Kind = c01Kinds[rng.Intn(len(c01Kinds))]
			if jsonVals && rng.Chance(0.3) {
				v.Kind = []string{"json", "jsonietf"}[rng.Intn(2)]
			}
			switch v.Kind {
			case "str", "bytes":
				v.S = fmt.Sprintf("s%d", v.I)
			case "json", "jsonietf":
				v.S = fmt.Sprintf(`{"v":%d}`, v.I)
			case "ll":
				v.L = []string{fmt.Sprintf("e%d", v.I), "z"}
				if rng.Chance(0.6) {
					// lists that grow and shrink at the end: successive values of a
					// leaf are prefixes of one another
					all := []string{"p", "q", "r", "s"}
					v.L = append([]string(nil), all[:rng.Intn(5)]...)
				}
			}
			return v
		}
		switch rng.Pick(55, 20, 20, 2) {
		case 0:
			no.Ups = []gen.Upd{{Path: rest, Val: val(), DeprPath: (hs/3)%5 == 0}}
			if no.Ups[0].DeprPath && len(no.Prefix) > 0 && rng.Chance(0.5) {
				no.DeprPfx = true
			}
		case 1:
			for k := 1 + rng.Intn(3); k > 0; k-- {
				p := rest
				if rng.Chance(0.6) {
					p = gen.RandElems(rng, 3, 0)
				}
				no.Ups = append(no.Ups, gen.Upd{Path: p, Val: val()})
			}
			for k := rng.Intn(2); k > 0; k-- {
				no.Dels = append(no.Dels, gen.RandElems(rng, 3, 0.2))
			}
		case 2:
			d := rest
			switch rng.Pick(4, 3, 2) {
			case 1:
				if len(d) > 1 {
					d = d[:len(d)-1]
				}
			case 2:
				d = append([]gen.Elem(nil), d...)
				d[rng.Intn(len(d))] = gen.Elem{N: "*"}
			}
			no.Dels = [][]gen.Elem{d}
		case 3: // empty notification
		}
		out = append(out, no)
	}
	return out
}

func (H) Generate(rng *simrt.Rand, prop, tier string) (any, simrt.Config) {
	cfg := simrt.RandomConfig(rng)
	cfg.MaxSteps = 120000
	nt := 1 + rng.Pick(5, 4, 2)
	u := gen.NewUniverse(rng, nt)
	u.Origins = []string{"", "", "oc", "x"}
	sc := &Scenario{Window: []int{0, 1, 8, 64}[rng.Intn(4)], CLI: rng.Chance(0.5), Requests: []string{"r1"}, JSONVals: rng.Chance(0.3)}
	if rng.Chance(0.4) {
		sc.Requests = append(sc.Requests, "r2")
	}
	if rng.Chance(0.3) {
		sc.MetaPeriodNs = int64(time.Duration(1+rng.Intn(20)) * time.Second)
	}
	faults := rng.Chance(0.4)
	sc.TargetClockAhead = rng.Chance(0.3)
	for i := 0; i < nt; i++ {
		t := TargetSpec{Name: fmt.Sprintf("dev%d", i), Request: sc.Requests[rng.Intn(len(sc.Requests))], Raw: rng.Chance(0.5)}
		ts := int64(1000)
		if sc.TargetClockAhead {
			// the simulated clock starts at 2000-01-01 00:00:00 UTC: these targets
			// stamp their updates two hours ahead of the collector's clock
			ts = 946684800_000_000_000 + int64(2*time.Hour)
		}
		ns := 1
		if faults {
			ns = 1 + rng.Intn(3)
		}
		for s := 0; s < ns; s++ {
			t.Sessions = append(t.Sessions, genStream(rng, u, t.Name, 1+rng.Intn(30), sc.JSONVals, &ts))
		}
		for s := 1; s < ns; s++ {
			sc.Breaks = append(sc.Breaks, Break{AtNs: int64(time.Duration(1+rng.Intn(60)) * time.Second), Target: i})
		}
		sc.Targets = append(sc.Targets, t)
	}
	sort.Slice(sc.Breaks, func(i, j int) bool { return sc.Breaks[i].AtNs < sc.Breaks[j].AtNs })
	if prop != "C12" && rng.Chance(0.4) {
		sc.Twins = make([]int64, nt)
		for i := range sc.Twins {
			if rng.Chance(0.7) {
				// leaves early, or between the target's sessions
				sc.Twins[i] = int64(time.Duration(1+rng.Intn(2000)) * time.Millisecond)
				if len(sc.Breaks) > 0 && rng.Chance(0.6) {
					sc.Twins[i] = int64(rng.Intn(int(sc.Breaks[len(sc.Breaks)-1].AtNs))) + 1
				}
			}
		}
	}
	if prop == "C12" {
		sc.Hostile = true
		sc.CLI = true
		if rng.Chance(0.5) {
			sc.Breaks = nil // otherwise targets also crash and restart (clients re-subscribe, second sync)
		}
		all := []string{"single", "group", "proto", "shortproto"}
		sc.Displays = []string{all[rng.Intn(4)], all[rng.Intn(4)]}
		for i := range sc.Targets {
			sc.Targets[i].Raw = true
			for si := range sc.Targets[i].Sessions {
				ss := sc.Targets[i].Sessions[si]
				for k := range ss {
					if rng.Chance(0.5) {
						ss[k] = gen.HostileNoti(rng, u, sc.Targets[i].Name, ss[k].TS)
						if rng.Chance(0.3) {
							ss[k].Target = ""
						}
					}
				}
			}
		}
	}
	sc.CLIPick = rng.Intn(1 << 20)
	if prop != "C12" && rng.Chance(0.2) {
		// a target that is in the middle of announcing a large list while the
		// client subscribes: many new leaves below one container, one per
		// notification, spread over every session
		n0 := 20 + rng.Intn(40)
		for i := range sc.Targets {
			n := n0
			for si := range sc.Targets[i].Sessions {
				ss := sc.Targets[i].Sessions[si]
				ts := int64(5000)
				if len(ss) > 0 {
					ts = ss[len(ss)-1].TS
				}
				var bulk []*gen.Noti
				for k := 0; k < n; k++ {
					ts++
					bulk = append(bulk, &gen.Noti{TS: ts, Prefix: []gen.Elem{{N: "bulk"}},
						Ups: []gen.Upd{{Path: []gen.Elem{{N: "e", K: map[string]string{"k": fmt.Sprint(k)}}, {N: "v"}}, Val: gen.Val{Kind: "int", I: int64(k)}}}})
				}
				sc.Targets[i].Sessions[si] = append(ss, bulk...)
			}
		}
		sc.Bulk = true
		sc.ClientDelayNs = int64(time.Duration(1+rng.Intn(3000)) * time.Millisecond)
		sc.BulkN = n0
	}
	return sc, cfg
}

func (H) Shrinks(s any) []any {
	sc := s.(*Scenario)
	var out []any
	clone := func() *Scenario {
		b, _ := json.Marshal(sc)
		c := &Scenario{}
		json.Unmarshal(b, c)
		return c
	}
	if len(sc.Targets) > 1 {
		for i := range sc.Targets {
			c := clone()
			c.Targets = append(c.Targets[:i], c.Targets[i+1:]...)
			var bs []Break
			for _, b := range c.Breaks {
				if b.Target < i {
					bs = append(bs, b)
				} else if b.Target > i {
					b.Target--
					bs = append(bs, b)
				}
			}
			c.Breaks = bs
			c.Twins = nil
			out = append(out, c)
		}
	}
	if sc.CLI {
		c := clone()
		c.CLI = false
		out = append(out, c)
	}
	if len(sc.Twins) > 0 {
		c := clone()
		c.Twins = nil
		out = append(out, c)
	}
	if sc.MetaPeriodNs != 0 {
		c := clone()
		c.MetaPeriodNs = 0
		out = append(out, c)
	}
	for i, t := range sc.Targets {
		for si, ss := range t.Sessions {
			for sz := len(ss) / 2; sz >= 1; sz /= 2 {
				for off := 0; off+sz <= len(ss); off += sz {
					c := clone()
					c.Targets[i].Sessions[si] = append(append([]*gen.Noti(nil), c.Targets[i].Sessions[si][:off]...), c.Targets[i].Sessions[si][off+sz:]...)
					out = append(out, c)
				}
			}
		}
	}
	return out
}

// ---------------------------------------------------------------- set-up helpers

var (
	tmpDir            string
	certFile, keyFile string
)

func init() {
	common.WarmUpHooks = append(common.WarmUpHooks, func() {
		var err error
		tmpDir, err = os.MkdirTemp("", "verif-pipeline-")
		if err != nil {
			panic(err)
		}
		key, _ := ecdsa.GenerateKey(elliptic.P256(), rand.Reader)
		tmpl := &x509.Certificate{SerialNumber: big.NewInt(1), Subject: pkix.Name{CommonName: "sim"}, NotBefore: time.Unix(0, 0), NotAfter: time.Date(2099, 1, 1, 0, 0, 0, 0, time.UTC), DNSNames: []string{"localhost"}}
		der, _ := x509.CreateCertificate(rand.Reader, tmpl, tmpl, &key.PublicKey, key)
		kb, _ := x509.MarshalECPrivateKey(key)
		certFile, keyFile = filepath.Join(tmpDir, "cert.pem"), filepath.Join(tmpDir, "key.pem")
		os.WriteFile(certFile, pem.EncodeToMemory(&pem.Block{Type: "CERTIFICATE", Bytes: der}), 0o600)
		os.WriteFile(keyFile, pem.EncodeToMemory(&pem.Block{Type: "EC PRIVATE KEY", Bytes: kb}), 0o600)
		// touch lazily initialised dependencies outside any bubble
		cache.New([]string{"warm"}).GnmiUpdate(&gpb.Notification{Prefix: &gpb.Path{Target: "warm"}})
		prototext.Format(&gpb.SubscribeRequest{})
	})
}

const collectorPort = 41000

func agentPort(i, session int) int { return 42000 + i }

func responses(b *gen.Builder, ns []*gen.Noti) []*gpb.SubscribeResponse {
	var out []*gpb.SubscribeResponse
	for _, n := range ns {
		out = append(out, &gpb.SubscribeResponse{Response: &gpb.SubscribeResponse_Update{Update: b.Build(n)}})
	}
	return out
}

// rawTarget is a scripted gNMI endpoint: it sends its responses verbatim, then
// a sync, then holds the stream open.
type rawTarget struct {
	gpb.UnimplementedGNMIServer
	srv   *simgrpc.Server
	lis   simnet.Listener
	resps []*gpb.SubscribeResponse
	// gateAt >= 0: before sending response #gateAt the target waits until gate reports true
	gateAt int
	gate   func() bool
}

func newRawTarget(port int, resps []*gpb.SubscribeResponse) (*rawTarget, error) {
	r := &rawTarget{srv: simgrpc.NewServer(), resps: resps}
	gpb.RegisterGNMIServer(r.srv, r)
	lis, err := simnet.Listen("tcp", fmt.Sprintf(":%d", port))
	if err != nil {
		return nil, err
	}
	r.lis = lis
	simrt.Go(func() { r.srv.Serve(lis) })
	return r, nil
}

func (r *rawTarget) Close() {
	r.srv.Stop()
	r.lis.Close()
}

func (r *rawTarget) Subscribe(stream gpb.GNMI_SubscribeServer) error {
	if _, err := stream.Recv(); err != nil {
		return err
	}
	for i, m := range r.resps {
		if r.gate != nil && i == r.gateAt {
			for k := 0; k < 100000 && !r.gate(); k++ {
				simrt.Sleep(time.Millisecond)
			}
		}
		if err := stream.Send(m); err != nil {
			return err
		}
	}
	if err := stream.Send(&gpb.SubscribeResponse{Response: &gpb.SubscribeResponse_SyncResponse{SyncResponse: true}}); err != nil {
		return err
	}
	simrt.Recv(stream.Context().Done())
	return stream.Context().Err()
}

// stamped is the notification as the collector must file it: target name
// forced, empty origin promoted to "openconfig".
func stamped(b *gen.Builder, n *gen.Noti, target string) *gpb.Notification {
	no := proto.Clone(b.Build(n)).(*gpb.Notification)
	if no.Prefix == nil {
		no.Prefix = &gpb.Path{}
	}
	no.Prefix.Target = target
	if no.Prefix.Origin == "" {
		no.Prefix.Origin = "openconfig"
	}
	return no
}

// goVal is the harness's own decoding of a TypedValue into what a client
// application sees.
func goVal(tv *gpb.TypedValue) any {
	switch v := tv.GetValue().(type) {
	case *gpb.TypedValue_IntVal:
		return v.IntVal
	case *gpb.TypedValue_UintVal:
		return v.UintVal
	case *gpb.TypedValue_StringVal:
		return v.StringVal
	case *gpb.TypedValue_BoolVal:
		return v.BoolVal
	case *gpb.TypedValue_DoubleVal:
		return v.DoubleVal
	case *gpb.TypedValue_FloatVal:
		return v.FloatVal
	case *gpb.TypedValue_DecimalVal:
		return float32(float64(v.DecimalVal.Digits) / math.Pow(10, float64(v.DecimalVal.Precision)))
	case *gpb.TypedValue_BytesVal:
		return v.BytesVal
	case *gpb.TypedValue_LeaflistVal:
		var l []any
		for _, e := range v.LeaflistVal.Element {
			l = append(l, goVal(e))
		}
		return l
	case *gpb.TypedValue_JsonVal:
		var x any
		json.Unmarshal(v.JsonVal, &x)
		return jsonWrap{x}
	case *gpb.TypedValue_JsonIetfVal:
		var x any
		json.Unmarshal(v.JsonIetfVal, &x)
		return jsonWrap{x}
	}
	return nil
}

type jsonWrap struct{ v any }

// canon renders a client-side Go value canonically (type and value).
func canon(v any) string {
	switch x := v.(type) {
	case jsonWrap:
		b, _ := json.Marshal(x.v)
		return "json:" + string(b)
	case value.DeprecatedScalar:
		b, _ := json.Marshal(x.Value)
		return "json:" + string(b)
	case []any:
		var parts []string
		for _, e := range x {
			parts = append(parts, canon(e))
		}
		return "[" + strings.Join(parts, ",") + "]"
	case []byte:
		return fmt.Sprintf("bytes:%x", x)
	}
	return fmt.Sprintf("%T:%v", v, v)
}

// expected client view of one target: path (joined, without the target) -> canonical value
func expectedView(b *gen.Builder, t TargetSpec) (map[string]string, map[string]*gpb.TypedValue) {
	m := cachemodel.NewTarget()
	vals := map[string]*gpb.TypedValue{}
	last := t.Sessions[len(t.Sessions)-1]
	for _, n := range last {
		no := stamped(b, n, t.Name)
		exp := m.Apply(no, cachemodel.Opts{EventDriven: true}, nil)
		// trailing-glob-past-a-leaf deletes: resolved by what a query reports, i.e. removed
		for _, g := range exp.Groups {
			for _, fe := range g {
				if fe.Kind == "del" && fe.May {
					delete(m.Leaves, fe.Key)
				}
			}
		}
		for _, u := range no.Update {
			k := gen.Key(gen.LeafKey(no.Prefix, u.Path))
			if l := m.Leaves[k]; l != nil && l.TS == no.Timestamp {
				vals[k] = u.Val
			}
		}
	}
	out := map[string]string{}
	for k := range m.Leaves {
		out[strings.Join(gen.Unkey(k), "/")] = canon(goVal(vals[k]))
	}
	return out, vals
}

func viewString(m map[string]string) string {
	var ks []string
	for k := range m {
		ks = append(ks, k)
	}
	sort.Strings(ks)
	var sb strings.Builder
	for _, k := range ks {
		fmt.Fprintf(&sb, "    %s = %s\n", k, m[k])
	}
	return sb.String()
}

// ---------------------------------------------------------------- execution

func setFlag(x *common.Exec, name, val string) {
	if err := flag.Set(name, val); err != nil {
		x.Violate("C01/setup", "flag %s: %v", name, err)
	}
}

func (H) Execute(x *common.Exec, s any) {
	sc := s.(*Scenario)
	simgrpc.SetHooks(&simgrpc.Hooks{Window: sc.Window})
	oldB, oldM, oldR := manager.RetryBaseDelay, manager.RetryMaxDelay, manager.RetryRandomization
	manager.RetryBaseDelay, manager.RetryMaxDelay, manager.RetryRandomization = time.Second, 4*time.Second, 0
	oldNow, oldLat := cache.Now, latency.Now
	oldCR := client.RetryRandomization
	client.RetryRandomization = 0 // back-off jitter draws from the process-global math/rand
	defer func() {
		client.RetryRandomization = oldCR
		manager.RetryBaseDelay, manager.RetryMaxDelay, manager.RetryRandomization = oldB, oldM, oldR
		cache.Now, latency.Now = oldNow, oldLat
	}()
	b := gen.NewBuilder()  // used by the ops task only
	bj := gen.NewBuilder() // used by the judging code only

	// ---- targets: the repository's fake agent in fixed mode
	var arriving atomic.Bool // set when the first client is about to subscribe
	agents := make([]interface{ Close() }, len(sc.Targets))
	session := make([]int, len(sc.Targets))
	startAgent := func(i int) error {
		t := sc.Targets[i]
		if t.Raw {
			r, err := newRawTarget(agentPort(i, 0), responses(b, t.Sessions[session[i]]))
			if err != nil {
				return err
			}
			if sc.Bulk && session[i] == 0 {
				r.gateAt, r.gate = len(t.Sessions[0])-sc.BulkN, func() bool { return arriving.Load() }
			}
			agents[i] = r
			return nil
		}
		cfg := &fpb.Config{Target: t.Name, Port: int32(agentPort(i, 0)), DisableEof: true,
			Generator: &fpb.Config_Fixed{Fixed: &fpb.FixedGenerator{Responses: responses(b, t.Sessions[session[i]])}}}
		a, err := fgnmi.New(cfg, nil)
		if err != nil {
			return err
		}
		agents[i] = a
		return nil
	}
	// ---- collector configuration file
	conf := &tpb.Configuration{Request: map[string]*gpb.SubscribeRequest{}, Target: map[string]*tpb.Target{}}
	for _, r := range sc.Requests {
		conf.Request[r] = &gpb.SubscribeRequest{Request: &gpb.SubscribeRequest_Subscribe{Subscribe: &gpb.SubscriptionList{
			Prefix: &gpb.Path{}, Subscription: []*gpb.Subscription{{Path: &gpb.Path{}}}}}}
	}
	for i, t := range sc.Targets {
		conf.Target[t.Name] = &tpb.Target{Addresses: []string{fmt.Sprintf("127.0.0.1:%d", agentPort(i, 0))}, Request: t.Request}
	}
	confFile := filepath.Join(tmpDir, fmt.Sprintf("collector-%d.cfg", os.Getpid()))
	cb, _ := prototext.Marshal(conf)
	os.WriteFile(confFile, cb, 0o600)
	setFlag(x, "config_file", confFile)
	setFlag(x, "cert_file", certFile)
	setFlag(x, "key_file", keyFile)
	setFlag(x, "port", fmt.Sprint(collectorPort))
	setFlag(x, "dial_timeout", "10s")
	setFlag(x, "metadata_update_period", time.Duration(sc.MetaPeriodNs).String())
	setFlag(x, "size_update_period", "0s")
	if len(x.Viol) > 0 {
		return
	}
	ctx, cancel := context.WithCancel(context.Background())
	defer cancel()
	defer func() { // end the targets' servers so that no goroutine of this run stays blocked
		for _, a := range agents {
			if a != nil {
				a.Close()
			}
		}
	}()
	var collectorErr error
	collectorDone := false
	// One "operations" task owns the agents: it starts them, starts the
	// collector process, then plays the crash-and-restart faults.
	x.R.Go("ops", func() {
		for i := range sc.Targets {
			if err := startAgent(i); err != nil {
				collectorErr = err
				return
			}
		}
		simrt.Go(func() {
			collectorErr = gnmi_collector.VerifRun(ctx)
			collectorDone = true
		})
		var now int64
		for _, br := range sc.Breaks {
			if br.AtNs > now {
				simrt.Sleep(time.Duration(br.AtNs - now))
				now = br.AtNs
			}
			i := br.Target
			if session[i]+1 >= len(sc.Targets[i].Sessions) {
				continue
			}
			agents[i].Close()
			x.Fault("target-crash-restart")
			session[i]++
			if err := startAgent(i); err != nil {
				collectorErr = err
				return
			}
		}
	})
	// ---- client: CacheClient per target over the real gNMI client
	addr := fmt.Sprintf("127.0.0.1:%d", collectorPort)
	clients := make([]*client.CacheClient, len(sc.Targets))
	subErr := make([]error, len(sc.Targets))
	connectedFirst := make([]bool, len(sc.Targets))
	for i, t := range sc.Targets {
		i, t := i, t
		clients[i] = client.New()
		first := true
		x.R.Go("client-"+t.Name, func() {
			q := client.Query{Addrs: []string{addr}, Target: t.Name, Queries: []client.Path{{"*"}}, Type: client.Stream, Timeout: 20 * time.Second,
				NotificationHandler: func(n client.Notification) error {
					if first {
						_, connectedFirst[i] = n.(client.Connected)
						first = false
					}
					return nil
				}}
			if sc.ClientDelayNs > 0 {
				simrt.Sleep(time.Duration(sc.ClientDelayNs))
			}
			arriving.Store(true)
			// the collector needs a moment to come up; a reconnecting client copes with "no such target" while it starts
			rc := client.Reconnect(clients[i], nil, nil)
			subErr[i] = rc.Subscribe(ctx, q, gclient.Type)
		})
	}
	for i, t := range sc.Targets {
		if i >= len(sc.Twins) || sc.Twins[i] == 0 {
			continue
		}
		i, t := i, t
		twin := client.New()
		x.R.Go("twin-"+t.Name, func() {
			q := client.Query{Addrs: []string{addr}, Target: t.Name, Queries: []client.Path{{"*"}}, Type: client.Stream, Timeout: 20 * time.Second,
				NotificationHandler: func(client.Notification) error { return nil }}
			rc := client.Reconnect(twin, nil, nil)
			simrt.Go(func() { rc.Subscribe(ctx, q, gclient.Type) })
			simrt.Sleep(time.Duration(sc.Twins[i]))
			rc.Close()
		})
	}
	horizon := 90 * time.Second
	if sc.Hostile {
		horizon = 8 * time.Second
	}
	if len(sc.Breaks) > 0 {
		horizon += time.Duration(sc.Breaks[len(sc.Breaks)-1].AtNs)
	}
	out := x.R.Schedule(false, func() bool { return x.R.Now() > horizon })
	x.R.AcquireEnd()
	if out == simrt.StepLimit {
		x.Inconclusive = "step-limit"
		return
	}
	for _, t := range sc.Targets {
		if t.Raw {
			x.Fault("target-reports-no-or-wrong-name")
		}
		for _, se := range t.Sessions {
			for _, n := range se {
				if len(n.Dels) > 0 {
					x.Fault("delete-in-stream")
				}
			}
		}
	}
	if sc.Window <= 1 {
		x.Fault("slow-transport-window-" + fmt.Sprint(sc.Window))
	}
	for _, tw := range sc.Twins {
		if tw > 0 {
			x.Fault("second-client-with-the-same-query-leaves")
		}
	}
	if sc.Hostile {
		x.Fault("hostile-target-stream")
	}
	if sc.Bulk {
		x.Fault("client-subscribes-while-the-target-announces-a-long-list")
	}
	if sc.TargetClockAhead {
		x.Fault("target-clock-ahead-of-the-collector")
	}
	if collectorDone || collectorErr != nil {
		x.Violate("C01/collector-exited", "the collector stopped: %v", collectorErr)
		return
	}
	if sc.Hostile {
		x.NonTrivial = true
		judgeHostile(x, sc, ctx, addr)
		return
	}
	// ---- judgement: client view == target final state
	x.NonTrivial = true
	hh := fnv.New64a()
	expected := make([]map[string]string, len(sc.Targets))
	for i, t := range sc.Targets {
		exp, _ := expectedView(bj, t)
		expected[i] = exp
		got := map[string]string{}
		var leaves client.Leaves
		var simDone atomic.Bool
		x.R.Go("read", func() { simrt.Quietly(func() { leaves = clients[i].Leaves(); simDone.Store(true) }) })
		x.R.Schedule(true, func() bool { return simDone.Load() })
		x.R.AcquireEnd()
		for _, l := range leaves {
			if len(l.Path) < 2 || l.Path[0] != t.Name {
				x.Violate("C01/foreign-leaf", "client subscribed to %s holds leaf %v", t.Name, l.Path)
				continue
			}
			if l.Path[1] == "meta" {
				continue
			}
			got[strings.Join(l.Path[1:], "/")] = canon(l.Val)
		}
		x.Oblige(1)
		fmt.Fprint(hh, viewString(exp))
		if viewString(got) != viewString(exp) {
			x.Violate("C01/client-view-differs", "target %s: the client-library cache of a subscriber through the collector holds\n%sbut the target's final state is\n%s(subscribe error so far: %v)", t.Name, viewString(got), viewString(exp), subErr[i])
			return
		}
		x.Oblige(1)
		if !connectedFirst[i] {
			x.Violate("C18/connected-not-first", "target %s: the first notification on the stream was not Connected", t.Name)
		}
	}
	x.StateHash = hh.Sum64()
	if sc.CLI {
		judgeCLI(x, sc, ctx, addr, expected)
	}
}

// ---------------------------------------------------------------- CLI

// runTask runs f as a simulated process and waits for it. It returns false
// when f did not return: stuck, or the process exited (log.Exit / os.Exit),
// in which case exited is set.
var exited bool

func runTask(x *common.Exec, name string, f func()) bool {
	var done, finished atomic.Bool
	exited = false
	x.R.Go(name, func() {
		defer func() { finished.Store(true) }()
		f()
		done.Store(true)
	})
	limit := x.R.Steps + 40000
	x.R.Schedule(true, func() bool { return finished.Load() || x.R.Steps > limit })
	x.R.AcquireEnd()
	exited = finished.Load() && !done.Load()
	return done.Load()
}

func singleLines(lines []string, target string) map[string]string {
	out := map[string]string{}
	for _, l := range lines {
		i := strings.Index(l, ", ")
		if i < 0 {
			continue
		}
		p := strings.Split(l[:i], "/")
		if len(p) < 2 || p[0] != target || p[1] == "meta" {
			continue
		}
		out[strings.Join(p[1:], "/")] = l[i+2:]
	}
	return out
}

func judgeCLI(x *common.Exec, sc *Scenario, ctx context.Context, addr string, expected []map[string]string) {
	b := gen.NewBuilder()
	for i, t := range sc.Targets {
		_, vals := expectedView(b, t)
		// what "single" display must print: path, %v of the value
		wantSingle := map[string]string{}
		for k := range expected[i] {
			key := gen.Key(strings.Split(k, "/"))
			gv := goVal(vals[key])
			if jw, ok := gv.(jsonWrap); ok {
				gv = jw.v
				_ = gv
				continue // JSON values print through a wrapper struct; not compared textually
			}
			wantSingle[k] = fmt.Sprintf("%v", gv)
		}
		skipJSON := len(wantSingle) != len(expected[i])
		// ---- cli.QueryDisplay, single
		var lines []string
		cfg := &cli.Config{Display: func(b []byte) { lines = append(lines, string(b)) }, DisplayType: "single", Delimiter: "/", ClientTypes: []string{gclient.Type}}
		q := client.Query{Addrs: []string{addr}, Target: t.Name, Queries: []client.Path{{"*"}}, Type: client.Once, Timeout: 20 * time.Second}
		var err error
		if !runTask(x, "cli-single", func() { err = cli.QueryDisplay(ctx, q, cfg) }) {
			x.Violate("C01/cli-stuck", "cli.QueryDisplay (single, ONCE) did not return")
			return
		}
		x.Oblige(1)
		if got := singleLines(lines, t.Name); !skipJSON && (err != nil || viewString(got) != viewString(wantSingle)) {
			x.Violate("C01/cli-single-differs", "target %s: `single` display of a ONCE query printed\n%swant\n%serr=%v", t.Name, viewString(got), viewString(wantSingle), err)
			return
		}
		// ---- cli.QueryDisplay, proto: replay the printed responses
		var protos []string
		cfg = &cli.Config{Display: func(b []byte) { protos = append(protos, string(b)) }, DisplayType: "proto", ClientTypes: []string{gclient.Type}}
		if !runTask(x, "cli-proto", func() { err = cli.QueryDisplay(ctx, q, cfg) }) {
			x.Violate("C01/cli-stuck", "cli.QueryDisplay (proto, ONCE) did not return")
			return
		}
		rp := cachemodel.Replay{}
		for _, p := range protos {
			r := &gpb.SubscribeResponse{}
			if e := prototext.Unmarshal([]byte(p), r); e != nil {
				x.Violate("C01/cli-proto-unparsable", "`proto` display printed text that does not parse as a SubscribeResponse: %v\n%s", e, p)
				return
			}
			if r.GetUpdate() != nil {
				rp.Feed(r.GetUpdate())
			}
		}
		gotP := map[string]string{}
		for k := range rp[t.Name] {
			if !cachemodel.IsMeta(k) {
				gotP[strings.Join(gen.Unkey(k), "/")] = "present"
			}
		}
		wantP := map[string]string{}
		for k := range expected[i] {
			wantP[k] = "present"
		}
		x.Oblige(1)
		if err != nil || viewString(gotP) != viewString(wantP) {
			x.Violate("C01/cli-proto-differs", "target %s: `proto` display of a ONCE query denotes leaves\n%swant\n%serr=%v", t.Name, viewString(gotP), viewString(wantP), err)
			return
		}
		// ---- cli.QueryDisplay, group: the nested map must parse and hold the same paths
		var group []string
		cfg = &cli.Config{Display: func(b []byte) { group = append(group, string(b)) }, DisplayType: "group", DisplayIndent: "  ", ClientTypes: []string{gclient.Type}}
		if !runTask(x, "cli-group", func() { err = cli.QueryDisplay(ctx, q, cfg) }) {
			x.Violate("C01/cli-stuck", "cli.QueryDisplay (group, ONCE) did not return")
			return
		}
		hasBytes := false
		for _, v := range expected[i] {
			if strings.HasPrefix(v, "bytes:") || strings.Contains(v, "float32:") || strings.Contains(v, "float64:") {
				hasBytes = true // printed with %v: not JSON
			}
		}
		if !hasBytes && !skipJSON && len(group) > 0 {
			var tree map[string]any
			x.Oblige(1)
			if e := json.Unmarshal([]byte(group[0]), &tree); e != nil {
				x.Violate("C01/cli-group-unparsable", "`group` display printed a nested map that does not parse: %v\n%s", e, group[0])
				return
			}
			gotG := map[string]string{}
			var walk func(p []string, v any)
			walk = func(p []string, v any) {
				if m, ok := v.(map[string]any); ok {
					for k, c := range m {
						walk(append(append([]string(nil), p...), k), c)
					}
					return
				}
				if len(p) >= 2 && p[0] == t.Name && p[1] != "meta" {
					gotG[strings.Join(p[1:], "/")] = "present"
				}
			}
			walk(nil, tree)
			if viewString(gotG) != viewString(wantP) {
				x.Violate("C01/cli-group-differs", "target %s: `group` display of a ONCE query shows leaves\n%swant\n%s", t.Name, viewString(gotG), viewString(wantP))
				return
			}
		}
		// ---- the shipped gnmi_cli request construction, three equivalent invocations
		reqText := fmt.Sprintf(`subscribe: { prefix: { target: %q } mode: ONCE subscription: { path: { elem: { name: "*" } } } }`, t.Name)
		pf := filepath.Join(tmpDir, fmt.Sprintf("req-%d.txt", os.Getpid()))
		os.WriteFile(pf, []byte(reqText), 0o600)
		type inv struct {
			name  string
			flags [][2]string
		}
		invs := []inv{
			{"query flags", [][2]string{{"address", addr}, {"t", t.Name}, {"q", "*"}, {"qt", "once"}, {"dt", "single"}}},
			{"inline -proto", [][2]string{{"address", addr}, {"proto", reqText}, {"dt", "single"}}},
			{"-proto_file", [][2]string{{"address", addr}, {"proto_file", pf}, {"dt", "single"}}},
		}
		var outs []map[string]string
		for _, in := range invs {
			var ls []string
			gnmi_cli.VerifReset(func(b []byte) { ls = append(ls, string(b)) })
			for _, f := range in.flags {
				setFlag(x, f[0], f[1])
			}
			var e error
			if !runTask(x, "gnmi_cli", func() { e = gnmi_cli.VerifExecuteSubscribe(ctx) }) {
				if exited {
					x.Violate("C01/gnmi-cli-"+strings.Fields(strings.TrimLeft(in.name, "-"))[0]+"-exits", "target %s: gnmi_cli invoked with %s exited the process instead of displaying the subscription (output so far %q)", t.Name, in.name, ls)
				} else {
					x.Violate("C01/gnmi-cli-stuck", "gnmi_cli (%s) did not return", in.name)
				}
				return
			}
			got := singleLines(ls, t.Name)
			outs = append(outs, got)
			x.Oblige(1)
			if e != nil || (!skipJSON && viewString(got) != viewString(wantSingle)) {
				x.Violate("C01/gnmi-cli-"+strings.Fields(strings.TrimLeft(in.name, "-"))[0]+"-differs", "target %s: gnmi_cli invoked with %s printed\n%swant\n%serr=%v\noutput: %q", t.Name, in.name, viewString(got), viewString(wantSingle), e, ls)
				return
			}
		}
		for k := 1; k < len(outs); k++ {
			if viewString(outs[k]) != viewString(outs[0]) {
				x.Violate("C01/gnmi-cli-invocations-differ", "equivalent invocations printed different results:\n%s:\n%s%s:\n%s", invs[0].name, viewString(outs[0]), invs[k].name, viewString(outs[k]))
				return
			}
		}
		if !judgeCLIPartial(x, sc, ctx, addr, b, t, expected[i], wantSingle, skipJSON, pf) {
			return
		}
		if !hasBytes && !skipJSON {
			if !judgeCLIModes(x, ctx, addr, t, wantP) {
				return
			}
		}
	}
}

// groupLeaves parses one `group` display output and returns the non-metadata
// leaves of target it shows.
func groupLeaves(out, target string) (map[string]string, error) {
	var tree map[string]any
	if e := json.Unmarshal([]byte(out), &tree); e != nil {
		return nil, e
	}
	got := map[string]string{}
	var walk func(p []string, v any)
	walk = func(p []string, v any) {
		if m, ok := v.(map[string]any); ok {
			for k, c := range m {
				walk(append(append([]string(nil), p...), k), c)
			}
			return
		}
		if len(p) >= 2 && p[0] == target && p[1] != "meta" {
			got[strings.Join(p[1:], "/")] = "present"
		}
	}
	walk(nil, tree)
	return got, nil
}

// judgeCLIModes: the same subscription through the CLI's POLL and STREAM modes
// (group display). Every displayed snapshot must denote the target's final
// state: each of the polls, and the walk a streaming query prints at the sync.
func judgeCLIModes(x *common.Exec, ctx context.Context, addr string, t TargetSpec, wantP map[string]string) bool {
	var outs []string
	var err error
	cfg := &cli.Config{Display: func(b []byte) { outs = append(outs, string(b)) }, DisplayType: "group", DisplayIndent: " ", ClientTypes: []string{gclient.Type},
		Count: 2, PollingInterval: 3 * time.Second}
	q := client.Query{Addrs: []string{addr}, Target: t.Name, Queries: []client.Path{{"*"}}, Type: client.Poll, Timeout: 20 * time.Second}
	if !runTask(x, "cli-poll", func() { err = cli.QueryDisplay(ctx, q, cfg) }) {
		x.Violate("C01/cli-stuck", "cli.QueryDisplay (group, POLL, count 2) did not return")
		return false
	}
	x.Oblige(2)
	if err != nil || len(outs) != 2 {
		x.Violate("C01/cli-poll-differs", "target %s: POLL query with count 2 printed %d snapshots, err=%v", t.Name, len(outs), err)
		return false
	}
	for k, o := range outs {
		got, e := groupLeaves(o, t.Name)
		if e != nil {
			x.Violate("C01/cli-group-unparsable", "`group` display of poll %d does not parse: %v\n%s", k, e, o)
			return false
		}
		if viewString(got) != viewString(wantP) {
			x.Violate("C01/cli-poll-differs", "target %s: poll %d of a POLL query shows leaves\n%swant\n%s", t.Name, k, viewString(got), viewString(wantP))
			return false
		}
	}
	x.Probe("cli-poll-mode-compared")
	// STREAM for a bounded duration: the snapshot printed at the sync.
	outs = nil
	cfg = &cli.Config{Display: func(b []byte) { outs = append(outs, string(b)) }, DisplayType: "group", DisplayIndent: " ", ClientTypes: []string{gclient.Type},
		StreamingDuration: 5 * time.Second}
	q.Type = client.Stream
	if !runTask(x, "cli-stream", func() { err = cli.QueryDisplay(ctx, q, cfg) }) {
		x.Violate("C01/cli-stuck", "cli.QueryDisplay (group, STREAM, streaming duration 5s) did not return")
		return false
	}
	x.Oblige(1)
	if len(outs) == 0 {
		x.Violate("C01/cli-stream-differs", "target %s: STREAM query printed nothing within its streaming duration (err=%v)", t.Name, err)
		return false
	}
	got, e := groupLeaves(outs[0], t.Name)
	if e != nil {
		x.Violate("C01/cli-group-unparsable", "`group` display of a STREAM query does not parse: %v\n%s", e, outs[0])
		return false
	}
	x.Probe("cli-stream-mode-compared")
	if viewString(got) != viewString(wantP) {
		x.Violate("C01/cli-stream-differs", "target %s: the snapshot a STREAM query prints at the sync shows leaves\n%swant\n%s", t.Name, viewString(got), viewString(wantP))
		return false
	}
	return true
}

// judgeCLIPartial: a subscription to one subtree of the target (a keyed path
// with its origin), handed to the shipped gnmi_cli in four equivalent ways:
// query flags (origin as the first path node, keys in brackets), inline proto
// with the origin in the path, proto file with the origin in the prefix, and
// inline proto with the origin as the first path element. All must print
// exactly the final leaves below that path.
func judgeCLIPartial(x *common.Exec, sc *Scenario, ctx context.Context, addr string, b *gen.Builder, t TargetSpec, expected, wantSingle map[string]string, skipJSON bool, pf string) bool {
	// structured paths of the final leaves
	type lp struct {
		origin string
		elems  []gen.Elem
	}
	structured := map[string]lp{}
	for _, n := range t.Sessions[len(t.Sessions)-1] {
		no := stamped(b, n, t.Name)
		for ui, u := range no.Update {
			if ui >= len(n.Ups) || n.Ups[ui].DeprPath || n.DeprPfx {
				continue
			}
			k := strings.Join(gen.LeafKey(no.Prefix, u.Path), "/")
			if _, ok := expected[k]; ok {
				structured[k] = lp{no.Prefix.Origin, append(append([]gen.Elem(nil), n.Prefix...), n.Ups[ui].Path...)}
			}
		}
	}
	var keys []string
	for k := range structured {
		keys = append(keys, k)
	}
	if len(keys) == 0 {
		return true
	}
	sort.Strings(keys)
	x.Probe("cli-partial-subscription-compared")
	pick := structured[keys[sc.CLIPick%len(keys)]]
	depth := 1 + (sc.CLIPick/len(keys))%len(pick.elems)
	sub := pick.elems[:depth]
	// expected: final leaves whose index path starts with origin + index(sub)
	pfx := append([]string{pick.origin}, gen.Index(gen.Path(sub, false, 0))...)
	want, wantPresent := map[string]string{}, map[string]string{}
	for k := range expected {
		p := strings.Split(k, "/")
		if len(p) >= len(pfx) && strings.Join(p[:len(pfx)], "/") == strings.Join(pfx, "/") {
			wantPresent[k] = "present"
			if v, ok := wantSingle[k]; ok {
				want[k] = v
			}
		}
	}
	// the four forms
	var qflag, pelems strings.Builder
	qflag.WriteString(pick.origin)
	for _, e := range sub {
		qflag.WriteString("/" + e.N)
		pelems.WriteString(fmt.Sprintf(" elem: { name: %q", e.N))
		var ks []string
		for k := range e.K {
			ks = append(ks, k)
		}
		sort.Strings(ks)
		for _, k := range ks {
			qflag.WriteString(fmt.Sprintf("[%s=%s]", k, e.K[k]))
			pelems.WriteString(fmt.Sprintf(" key: { key: %q value: %q }", k, e.K[k]))
		}
		pelems.WriteString(" }")
	}
	inPath := fmt.Sprintf(`subscribe: { prefix: { target: %q } mode: ONCE subscription: { path: { origin: %q%s } } }`, t.Name, pick.origin, pelems.String())
	inPrefix := fmt.Sprintf(`subscribe: { prefix: { target: %q origin: %q } mode: ONCE subscription: { path: {%s } } }`, t.Name, pick.origin, pelems.String())
	asElem := fmt.Sprintf(`subscribe: { prefix: { target: %q } mode: ONCE subscription: { path: { elem: { name: %q }%s } } }`, t.Name, pick.origin, pelems.String())
	os.WriteFile(pf, []byte(inPrefix), 0o600)
	type inv struct {
		name  string
		flags [][2]string
	}
	invs := []inv{
		{"query flags " + qflag.String(), [][2]string{{"address", addr}, {"t", t.Name}, {"q", qflag.String()}, {"qt", "once"}, {"dt", "single"}}},
		{"inline -proto, origin in the path", [][2]string{{"address", addr}, {"proto", inPath}, {"dt", "single"}}},
		{"-proto_file, origin in the prefix", [][2]string{{"address", addr}, {"proto_file", pf}, {"dt", "single"}}},
		{"inline -proto, origin as first element", [][2]string{{"address", addr}, {"proto", asElem}, {"dt", "single"}}},
	}
	for _, in := range invs {
		var ls []string
		gnmi_cli.VerifReset(func(b []byte) { ls = append(ls, string(b)) })
		for _, f := range in.flags {
			setFlag(x, f[0], f[1])
		}
		var e error
		if !runTask(x, "gnmi_cli", func() { e = gnmi_cli.VerifExecuteSubscribe(ctx) }) {
			x.Violate("C01/gnmi-cli-stuck", "gnmi_cli (%s) did not return or exited; output so far %q", in.name, ls)
			return false
		}
		got := singleLines(ls, t.Name)
		gotPresent := map[string]string{}
		for k := range got {
			gotPresent[k] = "present"
		}
		x.Oblige(1)
		if e != nil || viewString(gotPresent) != viewString(wantPresent) || (!skipJSON && viewString(got) != viewString(want)) {
			x.Violate("C01/gnmi-cli-partial-differs", "target %s: gnmi_cli subscribed to a subtree with %s printed\n%swant\n%serr=%v\noutput: %q", t.Name, in.name, viewString(got), viewString(want), e, ls)
			return false
		}
	}
	return true
}

// judgeHostile (C12): every place the CLI and the client library read a
// peer's messages, against the collector fed by hostile targets and against a
// hostile server directly. Panics are reported by the framework; a CLI
// process that exits or returns an error is fine.
func judgeHostile(x *common.Exec, sc *Scenario, ctx context.Context, addr string) {
	bld := gen.NewBuilder()
	for i, t := range sc.Targets {
		// a hostile server that answers any subscription with the target's raw stream
		port := 43000 + i
		raw, err := newRawTarget(port, responses(bld, t.Sessions[len(t.Sessions)-1]))
		if err != nil {
			continue
		}
		for _, a := range []string{addr, fmt.Sprintf("127.0.0.1:%d", port)} {
			for _, dt := range sc.Displays {
				for _, typ := range []client.Type{client.Once, client.Stream} {
					cfg := &cli.Config{Display: func([]byte) {}, DisplayType: dt, Delimiter: "/", DisplayIndent: " ", ClientTypes: []string{gclient.Type}, Timestamp: []string{"", "on", "raw"}[i%3]}
					q := client.Query{Addrs: []string{a}, Target: t.Name, Queries: []client.Path{{"*"}}, Type: typ, Timeout: 10 * time.Second}
					if typ == client.Stream {
						cfg.StreamingDuration = 2 * time.Second
					}
					x.Oblige(1)
					runTask(x, "cli-"+dt, func() { cli.QueryDisplay(ctx, q, cfg) })
				}
			}
		}
		raw.Close()
	}
}
