//go:build go1.25

// Package connectionh is the harness for the shared connection manager (C16).
package connectionh

import (
	"context"
	"encoding/json"
	"errors"
	"fmt"
	"hash/fnv"
	"sort"
	"strings"
	"sync/atomic"
	"time"

	"github.com/openconfig/gnmi/connection"
	"github.com/openconfig/gnmi/zzverif/harness/common"
	"github.com/openconfig/gnmi/zzverif/simgrpc"
	"github.com/openconfig/gnmi/zzverif/simrt"
	"google.golang.org/grpc"
)

// Op: conn (request connection to address A with dialer D under context C,
// result kept in slot S), done (call the done function of slot S), done2 (call
// it from two goroutines at once), cancel
// (cancel context C), wait (let N scheduling points pass).
type Op struct {
	K string `json:"k"`
	A int    `json:"a,omitempty"`
	D string `json:"d,omitempty"`
	C int    `json:"c,omitempty"`
	S int    `json:"s,omitempty"`
	N int    `json:"n,omitempty"`
}

// Dial is one scripted dial outcome.
type Dial struct {
	Kind    string `json:"kind"` // ok | err | block
	DelayNs int64  `json:"delay_ns,omitempty"`
}

type Scenario struct {
	Addrs   int      `json:"addrs"`
	Scripts [][]Dial `json:"scripts"` // per address, cycled
	Tasks   [][]Op   `json:"tasks"`
	Ctxs    int      `json:"ctxs"`
}

type H struct{}

func (H) Name() string { return "connection" }

func (H) Decode(b []byte) (any, error) {
	s := &Scenario{}
	return s, json.Unmarshal(b, s)
}

func (H) Generate(rng *simrt.Rand, prop, tier string) (any, simrt.Config) {
	cfg := simrt.RandomConfig(rng)
	sc := &Scenario{Addrs: 1 + rng.Intn(3), Ctxs: 1 + rng.Intn(3)}
	for a := 0; a < sc.Addrs; a++ {
		var sd []Dial
		for i := 1 + rng.Intn(3); i > 0; i-- {
			d := Dial{Kind: []string{"ok", "ok", "ok", "err", "block"}[rng.Intn(5)]}
			if rng.Chance(0.6) {
				d.DelayNs = int64(1 + rng.Intn(1000))
			}
			sd = append(sd, d)
		}
		sc.Scripts = append(sc.Scripts, sd)
	}
	nt := 2 + rng.Intn(4)
	for t := 0; t < nt; t++ {
		var ops []Op
		slot := 0
		var live []int
		for i := 2 + rng.Intn(8); i > 0; i-- {
			switch rng.Pick(10, 8, 2, 3) {
			case 0:
				d := ""
				if rng.Chance(0.05) {
					d = "nosuch"
				}
				ops = append(ops, Op{K: "conn", A: rng.Intn(sc.Addrs), D: d, C: rng.Intn(sc.Ctxs), S: slot})
				live = append(live, slot)
				slot++
			case 1:
				if len(live) > 0 {
					k := rng.Intn(len(live))
					kind := "done"
					if rng.Chance(0.2) {
						kind = "done2"
					}
					ops = append(ops, Op{K: kind, S: live[k]})
					if rng.Chance(0.7) {
						live = append(live[:k], live[k+1:]...)
					}
				}
			case 2:
				ops = append(ops, Op{K: "cancel", C: rng.Intn(sc.Ctxs)})
			case 3:
				ops = append(ops, Op{K: "wait", N: 1 + rng.Intn(20)})
			}
		}
		sc.Tasks = append(sc.Tasks, ops)
	}
	return sc, cfg
}

func (H) Shrinks(s any) []any {
	sc := s.(*Scenario)
	var out []any
	clone := func() *Scenario {
		c := *sc
		c.Tasks = nil
		for _, t := range sc.Tasks {
			c.Tasks = append(c.Tasks, append([]Op(nil), t...))
		}
		c.Scripts = nil
		for _, t := range sc.Scripts {
			c.Scripts = append(c.Scripts, append([]Dial(nil), t...))
		}
		return &c
	}
	if len(sc.Tasks) > 1 {
		for i := range sc.Tasks {
			c := clone()
			c.Tasks = append(c.Tasks[:i], c.Tasks[i+1:]...)
			out = append(out, c)
		}
	}
	for i, t := range sc.Tasks {
		for j := range t {
			c := clone()
			c.Tasks[i] = append(c.Tasks[i][:j], c.Tasks[i][j+1:]...)
			out = append(out, c)
		}
	}
	for i, t := range sc.Scripts {
		for j, d := range t {
			if d.DelayNs > 0 {
				c := clone()
				c.Scripts[i][j].DelayNs = 0
				out = append(out, c)
			}
			if len(t) > 1 {
				c := clone()
				c.Scripts[i] = append(c.Scripts[i][:j], c.Scripts[i][j+1:]...)
				out = append(out, c)
			}
		}
	}
	return out
}

type connRec struct {
	task, slot int
	addr       int
	inv, ret   int64
	cc         *simgrpc.ClientConn
	err        string
	doneAt     int64 // first call of its done function (0 = never)
	dones      int
	returned   bool
}

type dialRec struct {
	addr     int
	from, to int64
	cc       *simgrpc.ClientConn
	kind     string
}

type closeRec struct {
	cc    *simgrpc.ClientConn
	stamp int64
}

const maxT = 64

func (H) Execute(x *common.Exec, s any) {
	sc := s.(*Scenario)
	addrName := func(a int) string { return fmt.Sprintf("host%d:9339", a) }
	addrOf := map[string]int{}
	for a := 0; a < sc.Addrs; a++ {
		addrOf[addrName(a)] = a
	}
	var inflight, maxInflight, dialCount [8]atomic.Int64
	dials := make([][]dialRec, maxT)
	closes := make([][]closeRec, maxT)
	tid := func() int {
		if t := simrt.Current(); t != nil && t.ID < maxT-1 {
			return t.ID
		}
		return maxT - 1
	}
	simgrpc.SetHooks(&simgrpc.Hooks{OnClose: func(cc *simgrpc.ClientConn) {
		closes[tid()] = append(closes[tid()], closeRec{cc: cc, stamp: simrt.Stamp()})
	}})
	dial := func(ctx context.Context, target string, opts ...grpc.DialOption) (*simgrpc.ClientConn, error) {
		a := addrOf[target]
		k := dialCount[a].Add(1) - 1
		n := inflight[a].Add(1)
		for {
			m := maxInflight[a].Load()
			if n <= m || maxInflight[a].CompareAndSwap(m, n) {
				break
			}
		}
		d := sc.Scripts[a][int(k)%len(sc.Scripts[a])]
		rec := dialRec{addr: a, from: simrt.Stamp(), kind: d.Kind}
		defer func() {
			inflight[a].Add(-1)
			rec.to = simrt.Stamp()
			dials[tid()] = append(dials[tid()], rec)
		}()
		if d.DelayNs > 0 {
			tm := time.NewTimer(time.Duration(d.DelayNs))
			if simrt.Select(false, simrt.CaseRecv(tm.C), simrt.CaseRecv(ctx.Done())) == 1 {
				tm.Stop()
				return nil, ctx.Err()
			}
		} else {
			simrt.Yield("dial")
		}
		switch d.Kind {
		case "err":
			return nil, errors.New("connection refused")
		case "block":
			simrt.Recv(ctx.Done())
			return nil, ctx.Err()
		}
		rec.cc = simgrpc.NewConn(target)
		return rec.cc, nil
	}
	m, err := connection.NewManagerCustom(map[string]connection.Dial{connection.DEFAULT: dial})
	if err != nil {
		x.Violate("C16/setup", "%v", err)
		return
	}
	ctxs := make([]context.Context, sc.Ctxs)
	cancels := make([]context.CancelFunc, sc.Ctxs)
	for i := range ctxs {
		ctxs[i], cancels[i] = context.WithCancel(context.Background())
	}
	recs := make([][]*connRec, len(sc.Tasks))
	var tasks []*simrt.Task
	for ti := range sc.Tasks {
		ti := ti
		tasks = append(tasks, x.R.Go(fmt.Sprintf("u%d", ti), func() {
			slots := map[int]*connRec{}
			doneFns := map[int]func(){}
			for _, op := range sc.Tasks[ti] {
				switch op.K {
				case "conn":
					r := &connRec{task: ti, slot: op.S, addr: op.A, inv: simrt.Stamp()}
					recs[ti] = append(recs[ti], r)
					cc, done, err := m.Connection(ctxs[op.C%sc.Ctxs], addrName(op.A), op.D)
					r.ret = simrt.Stamp()
					r.returned = true
					r.cc = cc
					if err != nil {
						r.err = err.Error()
					}
					slots[op.S], doneFns[op.S] = r, done
				case "done":
					if f := doneFns[op.S]; f != nil {
						r := slots[op.S]
						if r.doneAt == 0 {
							r.doneAt = simrt.Stamp()
						}
						r.dones++
						f()
					}
				case "done2": // the same release function from two goroutines at once (a deferred release racing a cancellation path)
					if f := doneFns[op.S]; f != nil {
						r := slots[op.S]
						if r.doneAt == 0 {
							r.doneAt = simrt.Stamp()
						}
						r.dones += 2
						simrt.Go(f)
						f()
					}
				case "cancel":
					cancels[op.C%sc.Ctxs]()
				case "wait":
					for i := 0; i < op.N; i++ {
						simrt.Yield("wait")
					}
				}
			}
		}))
	}
	out := x.R.Schedule(false, nil)
	x.R.AcquireEnd()
	if out == simrt.StepLimit {
		x.Inconclusive = "step-limit"
		return
	}
	// Phase 2: cancel every context; every pending request must now return.
	for _, c := range cancels {
		c()
	}
	out = x.R.Schedule(true, nil)
	x.R.AcquireEnd()
	if out != simrt.AllDone {
		x.Violate("C16/request-never-returned", "Connection() still blocked after every context was cancelled: %v", x.R.Unfinished())
		return
	}
	// Phase 3: release everything still held.
	var all []*connRec
	for _, rs := range recs {
		all = append(all, rs...)
	}
	var held []*connRec
	for _, r := range all {
		if r.cc != nil && r.doneAt == 0 {
			held = append(held, r)
		}
	}
	var allDials []dialRec
	var allCloses []closeRec
	collect := func() {
		allDials, allCloses = nil, nil
		for _, d := range dials {
			allDials = append(allDials, d...)
		}
		for _, c := range closes {
			allCloses = append(allCloses, c...)
		}
	}
	collect()
	firstClose := func(cc *simgrpc.ClientConn) int64 {
		var st int64
		for _, c := range allCloses {
			if c.cc == cc && (st == 0 || c.stamp < st) {
				st = c.stamp
			}
		}
		return st
	}
	nClose := func(cc *simgrpc.ClientConn) int {
		n := 0
		for _, c := range allCloses {
			if c.cc == cc {
				n++
			}
		}
		return n
	}
	hist := func() string {
		var sb strings.Builder
		rs := append([]*connRec(nil), all...)
		sort.Slice(rs, func(i, j int) bool { return rs[i].inv < rs[j].inv })
		for _, r := range rs {
			fmt.Fprintf(&sb, "  u%d Connection(addr %d) [%d,%d] -> conn=%p err=%q released at %d (%d done calls)\n", r.task, r.addr, r.inv, r.ret, r.cc, r.err, r.doneAt, r.dones)
		}
		for _, d := range allDials {
			fmt.Fprintf(&sb, "  dial addr %d [%d,%d] %s -> %p\n", d.addr, d.from, d.to, d.kind, d.cc)
		}
		for _, c := range allCloses {
			fmt.Fprintf(&sb, "  close %p at %d\n", c.cc, c.stamp)
		}
		return sb.String()
	}
	x.NonTrivial = len(all) >= 2 && len(sc.Tasks) >= 2
	for _, d := range allDials {
		if d.kind != "ok" {
			x.Fault("dial:" + d.kind)
		}
	}
	for _, r := range all {
		if r.err != "" {
			x.Fault("connection-request-failed")
		}
		if r.dones > 1 {
			x.Fault("release-called-more-than-once")
		}
	}
	for _, t := range sc.Tasks {
		for _, op := range t {
			if op.K == "cancel" {
				x.Fault("context-cancelled")
			}
			if op.K == "done2" {
				x.Fault("release-from-two-goroutines-at-once")
			}
		}
	}
	// (a) at most one dial in flight per address
	for a := 0; a < sc.Addrs; a++ {
		x.Oblige(1)
		if maxInflight[a].Load() > 1 {
			x.Violate("C16/concurrent-dials", "%d dials in flight for address %d\n%s", maxInflight[a].Load(), a, hist())
		}
	}
	// (c) never closed while held; (d') never handed out after it was closed
	for _, r := range all {
		if r.cc == nil {
			continue
		}
		x.Oblige(2)
		fc := firstClose(r.cc)
		if fc != 0 && (r.doneAt == 0 || fc < r.doneAt) && fc > r.inv {
			if r.ret > fc {
				x.Violate("C16/closed-connection-handed-out", "u%d received connection %p at %d, but it was closed at %d\n%s", r.task, r.cc, r.ret, fc, hist())
			} else {
				x.Violate("C16/closed-while-held", "connection %p was closed at %d while u%d (holding it since %d) had not released it (release at %d)\n%s", r.cc, fc, r.task, r.ret, r.doneAt, hist())
			}
			return
		}
		if fc != 0 && fc < r.inv {
			x.Violate("C16/closed-connection-handed-out", "u%d requested at %d and received connection %p which had been closed at %d\n%s", r.task, r.inv, r.cc, fc, hist())
			return
		}
		// the connection was produced by a dial of that address
		okDial := false
		for _, d := range allDials {
			if d.cc == r.cc && d.addr == r.addr {
				okDial = true
			}
		}
		if !okDial {
			x.Violate("C16/foreign-connection", "u%d asked for address %d and received a connection dialled for another address\n%s", r.task, r.addr, hist())
		}
	}
	// release the rest, then (d): every connection is closed exactly once
	x.R.Go("release", func() {
		for _, r := range held {
			_ = r
		}
	})
	rel := x.R.Go("release-all", func() {})
	_ = rel
	x.R.Schedule(true, nil)
	// the done functions live in the tasks' maps; re-run them through a second pass is not
	// possible, so "held" connections are judged as must-stay-open instead:
	for _, r := range held {
		x.Oblige(1)
		if nClose(r.cc) != 0 {
			x.Violate("C16/closed-while-held", "connection %p is still held by u%d but was closed\n%s", r.cc, r.task, hist())
		}
	}
	byConn := map[*simgrpc.ClientConn][]*connRec{}
	for _, r := range all {
		if r.cc != nil {
			byConn[r.cc] = append(byConn[r.cc], r)
		}
	}
	for cc, rs := range byConn {
		allReleased := true
		for _, r := range rs {
			if r.doneAt == 0 {
				allReleased = false
			}
		}
		x.Oblige(1)
		if allReleased && nClose(cc) != 1 {
			x.Violate("C16/not-closed-exactly-once", "every holder of connection %p released it, but it was closed %d time(s)\n%s", cc, nClose(cc), hist())
		}
	}
	// connections produced by a dial that nobody could receive must not leak open... (dial ok but all requesters gone cannot happen: requesters wait)
	// (f) forgotten: for an address with nothing held, a fresh request dials afresh.
	for a := 0; a < sc.Addrs; a++ {
		busy := false
		for _, r := range held {
			if r.addr == a {
				busy = true
			}
		}
		if busy {
			continue
		}
		before := dialCount[a].Load()
		var got *simgrpc.ClientConn
		var gerr error
		a := a
		ctx, cancel := context.WithTimeout(context.Background(), time.Hour)
		x.R.Go("probe", func() {
			cc, done, err := m.Connection(ctx, addrName(a), "")
			got, gerr = cc, err
			done()
		})
		out := x.R.Schedule(true, nil)
		cancel()
		x.R.Schedule(true, nil)
		x.R.AcquireEnd()
		_ = out
		x.Oblige(1)
		if dialCount[a].Load() == before {
			x.Violate("C16/entry-leaked", "nobody holds a connection to address %d, yet a new request did not dial (it got %p, err %v)\n%s", a, got, gerr, hist())
		}
	}
	hh := fnv.New64a()
	fmt.Fprint(hh, len(allDials), len(allCloses), len(all))
	x.StateHash = hh.Sum64()
}
