//go:build go1.25

// Package subscribeh is the harness for the Subscribe server on top of the
// real cache: C04 (STREAM convergence), C05 (ONCE/POLL snapshots), C07 (ACL),
// C08 (stalled subscribers), the server-level clause of C06 (registrations
// are removed when an RPC ends) and the stream-termination clause of C14.
//
// Writers play one update stream per target into the cache; subscribers are
// pairs of a handler task (the real generated stub + Server.Subscribe on a
// simulated stream) and a reader task that can be slow or stall (the
// flow-control fault). Everything is recorded with global event stamps and
// judged after the run.
package subscribeh

import (
	"context"
	"encoding/json"
	"errors"
	"fmt"
	"hash/fnv"
	"io"
	"reflect"
	"sort"
	"strings"
	"sync/atomic"
	"time"
	"unsafe"

	"github.com/openconfig/gnmi/cache"
	"github.com/openconfig/gnmi/ctree"
	"github.com/openconfig/gnmi/latency"
	pb "github.com/openconfig/gnmi/proto/gnmi"
	"github.com/openconfig/gnmi/subscribe"
	"github.com/openconfig/gnmi/zzverif/gen"
	"github.com/openconfig/gnmi/zzverif/harness/cacheh"
	"github.com/openconfig/gnmi/zzverif/harness/common"
	"github.com/openconfig/gnmi/zzverif/model/cachemodel"
	"github.com/openconfig/gnmi/zzverif/simgrpc"
	"github.com/openconfig/gnmi/zzverif/simrt"
	"google.golang.org/grpc/codes"
	"google.golang.org/grpc/metadata"
	"google.golang.org/grpc/status"
	"google.golang.org/protobuf/proto"
)

// SubPath is one subscription path.
type SubPath struct {
	Origin string     `json:"origin,omitempty"`
	Elems  []gen.Elem `json:"elems"`
}

// Sub is one subscriber.
type Sub struct {
	Mode        string     `json:"mode"` // stream | once | poll
	Target      string     `json:"target"`
	Origin      string     `json:"origin,omitempty"`
	Prefix      []gen.Elem `json:"prefix,omitempty"`
	Paths       []SubPath  `json:"paths"`
	UpdatesOnly bool       `json:"updates_only,omitempty"`
	Delay       int        `json:"delay,omitempty"` // scheduling points to wait before subscribing
	Polls       int        `json:"polls,omitempty"`
	PollIdleNs  int64      `json:"poll_idle_ns,omitempty"` // wait this long after a sync before the next poll trigger
	User        string     `json:"user,omitempty"`
	// Flow-control fault: after reading StallAt messages the reader stops for
	// StallNs of virtual time (-1: forever). SlowNs: pause before every read.
	StallAt int   `json:"stall_at,omitempty"`
	StallNs int64 `json:"stall_ns,omitempty"`
	SlowNs  int64 `json:"slow_ns,omitempty"`
	// CancelAt > 0: the client cancels its RPC after reading that many
	// responses (a subscriber going away while others stay). Its own stream is
	// not judged afterwards; the others must not notice.
	CancelAt int `json:"cancel_at,omitempty"`
	// Hostile (C12): the request is adversarial; only "no panic" is judged.
	Hostile string `json:"hostile,omitempty"`
}

// Scenario for the subscribe harness.
type Scenario struct {
	Opts      cachemodel.Opts     `json:"opts"`
	Targets   []string            `json:"targets"`
	Streams   [][]cacheh.Op       `json:"streams"`
	Preload   [][]cacheh.Op       `json:"preload,omitempty"` // applied before any subscriber starts
	Subs      []Sub               `json:"subs"`
	Window    int                 `json:"window"`
	TimeoutNs int64               `json:"timeout_ns"`
	ACL       map[string][]string `json:"acl,omitempty"` // user -> allowed targets; nil = no ACL
	BadUsers  []string            `json:"bad_users,omitempty"`
	Stats     bool                `json:"stats"`
	NoDup     bool                `json:"no_dup,omitempty"`
}

type H struct{}

func (H) Name() string { return "subscribe" }

// RaceProperty: none of C04/C05/C07/C08 states race freedom; race reports in
// this harness are recorded as observations (probes), not violations.
func (H) RaceProperty(prop string) string { return "" }

func (H) Decode(b []byte) (any, error) {
	s := &Scenario{}
	return s, json.Unmarshal(b, s)
}

// ---------------------------------------------------------------- generation

func genSub(rng *simrt.Rand, u *gen.Universe, prop string) Sub {
	s := Sub{Target: u.Targets[rng.Intn(len(u.Targets))]}
	if rng.Chance(0.35) {
		s.Target = "*"
	}
	switch prop {
	case "C05":
		s.Mode = []string{"once", "poll"}[rng.Intn(2)]
	case "C04", "C08", "C03":
		s.Mode = "stream"
	default:
		s.Mode = []string{"stream", "stream", "once", "poll"}[rng.Intn(4)]
	}
	if s.Mode == "poll" {
		s.Polls = rng.Intn(4)
		switch rng.Pick(5, 3, 2) {
		case 1:
			s.PollIdleNs = int64(time.Duration(1+rng.Intn(30)) * time.Second)
		case 2:
			s.PollIdleNs = int64(time.Duration(1+rng.Intn(10)) * time.Minute) // longer than any send timeout
		}
	}
	if s.Mode == "stream" {
		s.UpdatesOnly = rng.Chance(0.2)
	}
	s.Delay = rng.Intn(40)
	if rng.Chance(0.3) {
		s.Delay = rng.Intn(300) // joins while the targets' streams are well under way
	}
	np := 1 + rng.Pick(6, 3, 1)
	if prop == "C06" {
		np = 1 + rng.Intn(4)
	}
	for i := 0; i < np; i++ {
		var sp SubPath
		which := rng.Pick(3, 5, 2)
		if prop == "C06" && i > 0 && rng.Chance(0.6) {
			// same length as the first path, sharing a prefix with it
			first := s.Paths[0]
			sp.Origin = first.Origin
			sp.Elems = append([]gen.Elem(nil), first.Elems...)
			if len(sp.Elems) > 0 {
				sp.Elems[len(sp.Elems)-1] = gen.Elem{N: []string{"a", "b", "c", "*"}[rng.Intn(4)]}
			}
			s.Paths = append(s.Paths, sp)
			continue
		}
		switch which {
		case 0: // everything
			sp.Elems = []gen.Elem{{N: "*"}}
			if rng.Chance(0.3) {
				sp.Elems = nil
			}
		case 1: // a pool leaf or a prefix of it, possibly globbed
			full := u.Leaves[rng.Intn(len(u.Leaves))]
			k := 1 + rng.Intn(len(full))
			sp.Elems = append([]gen.Elem(nil), full[:k]...)
			if rng.Chance(0.3) {
				sp.Elems[rng.Intn(len(sp.Elems))] = gen.Elem{N: "*"}
			}
			sp.Origin = u.Origins[rng.Intn(len(u.Origins))]
		case 2:
			sp.Elems = gen.RandElems(rng, 3, 0.3)
			sp.Origin = u.Origins[rng.Intn(len(u.Origins))]
		}
		s.Paths = append(s.Paths, sp)
	}
	// origin in the prefix instead of the paths, sometimes with prefix elements
	if rng.Chance(0.25) {
		s.Origin = u.Origins[rng.Intn(len(u.Origins))]
		for i := range s.Paths {
			s.Paths[i].Origin = ""
		}
		if rng.Chance(0.4) && len(s.Paths[0].Elems) > 1 {
			s.Prefix = s.Paths[0].Elems[:1]
			s.Paths[0].Elems = s.Paths[0].Elems[1:]
		}
	}
	return s
}

func (H) Generate(rng *simrt.Rand, prop, tier string) (any, simrt.Config) {
	cfg := simrt.RandomConfig(rng)
	nt := 1 + rng.Pick(5, 4, 2)
	if prop == "C07" || prop == "C14" {
		nt = 2 + rng.Intn(2)
	}
	u := gen.NewUniverse(rng, nt)
	sc := &Scenario{Targets: u.Targets, Window: []int{0, 1, 2, 8, 64}[rng.Intn(5)], TimeoutNs: int64(time.Minute), Stats: rng.Chance(0.5)}
	sc.Opts.EventDriven = rng.Chance(0.6)
	small := rng.Chance(0.4)
	lifecycle := prop == "C14" || (prop == "C04" || prop == "C05") && rng.Chance(0.55) || rng.Chance(0.35)
	static := prop == "C05" && rng.Chance(0.5)
	sc.Preload = cacheh.GenStreams(rng, u, "pre", false, small, false, 8)
	if !static {
		sc.Streams = cacheh.GenStreams(rng, u, prop, lifecycle, small, false, 14)
	} else {
		sc.Streams = make([][]cacheh.Op, nt)
	}
	ns := 1 + rng.Pick(5, 4, 2, 1)
	for i := 0; i < ns; i++ {
		sb := genSub(rng, u, prop)
		if prop == "C12" && rng.Chance(0.6) {
			sb.Hostile = []string{"poll-first", "nil-prefix", "empty-target", "unknown-mode", "no-subscriptions", "nil-path", "origin-conflict",
				"prefix-elems-with-path-origin", "huge-keys", "empty-names", "meta-path", "empty-request", "deprecated-element-path", "glob-target-with-origin",
				"no-request-half-close", "no-request-cancel"}[rng.Intn(16)]
		}
		sc.Subs = append(sc.Subs, sb)
	}
	if prop == "C14" {
		// make sure a single-target stream subscriber watches a target that gets removed
		sc.Subs[0].Mode, sc.Subs[0].Target, sc.Subs[0].Delay = "stream", u.Targets[0], rng.Intn(5)
		// and an all-targets stream subscriber that attaches while targets come and go
		if len(sc.Subs) < 2 {
			sc.Subs = append(sc.Subs, genSub(rng, u, prop))
		}
		sc.Subs[1].Mode, sc.Subs[1].Target, sc.Subs[1].Delay = "stream", "*", rng.Intn(300)
		sc.Subs[1].Paths = []SubPath{{Elems: []gen.Elem{{N: "*"}}}}
		sc.Subs[1].Origin, sc.Subs[1].Prefix, sc.Subs[1].UpdatesOnly = "", nil, false
	}
	if prop == "C07" || rng.Chance(0.15) {
		sc.ACL = map[string][]string{}
		users := []string{"alice", "bob"}
		for _, usr := range users {
			var allowed []string
			for _, t := range u.Targets {
				if rng.Chance(0.5) {
					allowed = append(allowed, t)
				}
			}
			sc.ACL[usr] = allowed
		}
		sc.BadUsers = []string{"mallory"}
		for i := range sc.Subs {
			sc.Subs[i].User = []string{"alice", "bob", "alice", "bob", "mallory"}[rng.Intn(5)]
		}
	}
	if prop == "C08" || prop == "C03" || rng.Chance(0.2) {
		sc.TimeoutNs = int64(time.Duration(1+rng.Intn(90)) * time.Second)
		sc.Window = []int{0, 1, 2}[rng.Intn(3)]
		for i := range sc.Subs {
			switch rng.Pick(3, 3, 3, 2) {
			case 1: // transient stall shorter than the timeout
				sc.Subs[i].StallAt = rng.Intn(6)
				sc.Subs[i].StallNs = 1 + int64(rng.Intn(int(sc.TimeoutNs/2)))
			case 2: // permanent stall
				sc.Subs[i].StallAt = rng.Intn(6)
				sc.Subs[i].StallNs = -1
			case 3: // slow reader
				sc.Subs[i].SlowNs = int64(time.Duration(1+rng.Intn(2000)) * time.Millisecond)
			}
		}
		sc.Stats = true
	}
	sc.NoDup = rng.Chance(0.1)
	// Target churn: spare targets without data that are removed and re-added
	// over and over (a collector whose configuration is being edited) while
	// an all-targets subscriber walks the cache.
	if prop != "C12" && prop != "C07" && (prop == "C05" && rng.Chance(0.35) || rng.Chance(0.08)) {
		for k := 1 + rng.Intn(2); k > 0; k-- {
			name := fmt.Sprintf("a-spare%d", k)
			if rng.Chance(0.5) {
				name = fmt.Sprintf("z-spare%d", k)
			}
			var ops []cacheh.Op
			for i := 2 + rng.Intn(6); i > 0; i-- {
				ops = append(ops, cacheh.Op{K: "remove"}, cacheh.Op{K: "add"})
			}
			sc.Targets = append(sc.Targets, name)
			sc.Streams = append(sc.Streams, ops)
			sc.Preload = append(sc.Preload, nil)
		}
		sc.Subs[0].Target = "*"
		if sc.Subs[0].Mode == "poll" && sc.Subs[0].Polls == 0 {
			sc.Subs[0].Polls = 1 + rng.Intn(3)
		}
	}
	// C12: a named target that is removed and re-added over and over while
	// requests for it arrive (lookups racing the removal).
	if prop == "C12" && rng.Chance(0.3) {
		var ops []cacheh.Op
		for i := 2 + rng.Intn(6); i > 0; i-- {
			ops = append(ops, cacheh.Op{K: "remove"}, cacheh.Op{K: "add"})
		}
		sc.Streams[0] = append(sc.Streams[0], ops...)
		for i := range sc.Subs {
			if sc.Subs[i].Hostile == "" {
				sc.Subs[i].Target = sc.Targets[0]
				if sc.Subs[i].Mode == "poll" {
					sc.Subs[i].Polls = 2 + rng.Intn(3)
				}
			}
		}
	}
	// Twin subscribers: the same query registered by two clients (the same
	// node of the matcher), one of which often goes away.
	if prop != "C12" && len(sc.Subs) >= 2 && rng.Chance(0.3) {
		a, b := &sc.Subs[0], &sc.Subs[1]
		if a.Mode == "stream" && a.Hostile == "" && b.Hostile == "" {
			b.Mode, b.Target, b.Origin, b.Prefix, b.UpdatesOnly = a.Mode, a.Target, a.Origin, a.Prefix, a.UpdatesOnly
			b.Paths = append([]SubPath(nil), a.Paths...)
			b.Polls, b.PollIdleNs = 0, 0
			if b.StallNs == 0 && b.SlowNs == 0 && rng.Chance(0.6) {
				b.CancelAt = 1 + rng.Intn(6)
			}
		}
	}
	if prop != "C12" {
		for i := range sc.Subs {
			sb := &sc.Subs[i]
			if sb.Mode != "once" && sb.Hostile == "" && sb.StallNs == 0 && sb.SlowNs == 0 && sb.CancelAt == 0 && rng.Chance(0.1) {
				sb.CancelAt = 1 + rng.Intn(6)
			}
		}
		// quiet periods in the targets' streams, so that writes also happen
		// after send timeouts have fired and subscribers have gone away
		for i := range sc.Streams {
			if len(sc.Streams[i]) > 0 && rng.Chance(0.35) {
				at := rng.Intn(len(sc.Streams[i]) + 1)
				d := int64(time.Second) + int64(rng.Intn(int(2*sc.TimeoutNs)))
				ops := append([]cacheh.Op(nil), sc.Streams[i][:at]...)
				ops = append(ops, cacheh.Op{K: "wait", V: d})
				sc.Streams[i] = append(ops, sc.Streams[i][at:]...)
			}
		}
	}
	return sc, cfg
}

func (H) Shrinks(s any) []any {
	sc := s.(*Scenario)
	var out []any
	clone := func() *Scenario {
		c := *sc
		c.Streams, c.Preload = nil, nil
		for _, t := range sc.Streams {
			c.Streams = append(c.Streams, append([]cacheh.Op(nil), t...))
		}
		for _, t := range sc.Preload {
			c.Preload = append(c.Preload, append([]cacheh.Op(nil), t...))
		}
		c.Subs = append([]Sub(nil), sc.Subs...)
		return &c
	}
	if len(sc.Subs) > 1 {
		for i := range sc.Subs {
			c := clone()
			c.Subs = append(c.Subs[:i], c.Subs[i+1:]...)
			out = append(out, c)
		}
	}
	for _, which := range []string{"streams", "preload"} {
		src := sc.Streams
		if which == "preload" {
			src = sc.Preload
		}
		for i, t := range src {
			if len(t) == 0 {
				continue
			}
			for sz := len(t); sz >= 1; sz /= 2 {
				for off := 0; off+sz <= len(t); off += sz {
					c := clone()
					dst := c.Streams
					if which == "preload" {
						dst = c.Preload
					}
					dst[i] = append(append([]cacheh.Op(nil), t[:off]...), t[off+sz:]...)
					out = append(out, c)
				}
				if sz == 1 {
					break
				}
			}
		}
	}
	for i, sb := range sc.Subs {
		if len(sb.Paths) > 1 {
			for k := range sb.Paths {
				c := clone()
				c.Subs[i].Paths = append(append([]SubPath(nil), sb.Paths[:k]...), sb.Paths[k+1:]...)
				out = append(out, c)
			}
		}
		if sb.Delay > 0 {
			c := clone()
			c.Subs[i].Delay = 0
			out = append(out, c)
		}
		if sb.StallNs != 0 || sb.SlowNs != 0 {
			c := clone()
			c.Subs[i].StallNs, c.Subs[i].SlowNs, c.Subs[i].StallAt = 0, 0, 0
			out = append(out, c)
		}
		if sb.Polls > 0 {
			c := clone()
			c.Subs[i].Polls--
			out = append(out, c)
		}
		if sb.CancelAt > 0 {
			c := clone()
			c.Subs[i].CancelAt = 0
			out = append(out, c)
		}
	}
	for i, t := range sc.Streams {
		for j, op := range t {
			if op.N != nil && len(op.N.Ups) > 1 {
				for k := range op.N.Ups {
					c := clone()
					n := *op.N
					n.Ups = append(append([]gen.Upd(nil), op.N.Ups[:k]...), op.N.Ups[k+1:]...)
					c.Streams[i][j].N = &n
					out = append(out, c)
				}
			}
		}
	}
	return out
}

// ---------------------------------------------------------------- ACL

type acl struct {
	table map[string][]string
	bad   map[string]bool
}

type rpcACL struct {
	allowed map[string]bool
}

func (a *rpcACL) Check(t string) bool { return a.allowed[t] }

func userOf(ctx context.Context) string {
	md, _ := metadata.FromIncomingContext(ctx)
	if v := md.Get("user"); len(v) > 0 {
		return v[0]
	}
	return ""
}

func (a *acl) NewRPCACL(ctx context.Context) (subscribe.RPCACL, error) {
	usr := userOf(ctx)
	if a.bad[usr] || usr == "" {
		return nil, errors.New("cannot establish identity")
	}
	r := &rpcACL{allowed: map[string]bool{}}
	for _, t := range a.table[usr] {
		r.allowed[t] = true
	}
	return r, nil
}

func (a *acl) Check(user, target string) bool {
	for _, t := range a.table[user] {
		if t == target {
			return true
		}
	}
	return false
}

// ---------------------------------------------------------------- recording

type wrec struct {
	target   string
	op       cacheh.Op
	noti     *pb.Notification
	class    string
	inv, ret int64
	before   []byte // the caller's notification as it was handed to GnmiUpdate
	startNs  int64  // virtual time when the operation was invoked
	endNs    int64  // virtual time when the operation returned
}

type feedRec struct {
	stamp int64 // when the feed callback started
	end   int64 // when the server's Update returned
	opInv int64 // when the writer operation that caused it was invoked (the tree is written before the feed is notified)
	n     *pb.Notification
}

type resp struct {
	stamp int64 // when the reader received it
	ns    int64 // virtual time
	r     *pb.SubscribeResponse
}

type subRec struct {
	sub       Sub
	inv       int64 // stamp when the request was handed to the stream
	started   bool
	resps     []resp
	recvErr   error // error that ended the reader (nil: still reading / cancelled by the harness)
	ended     bool  // reader saw the end of the stream by itself
	endStamp  int64
	st        *simgrpc.Stream
	stallFrom int64 // stamp at which the reader stalled (0 = never)
	stallNs   int64 // virtual time at which it stalled
	stallTo   int64 // stamp at which it resumed (0 = never)
	deq       []deqRec
	triggers  []int64 // stamps at which poll triggers were sent
	cancelled int64   // stamp at which the client cancelled its own RPC (CancelAt)
}

type deqRec struct {
	stamp      int64
	dup, queue int64
}

type world struct {
	sc     *Scenario
	c      *cache.Cache
	srv    *subscribe.Server
	gs     *simgrpc.Server
	w      [][]wrec // per target stream
	feed   []feedRec
	feeds  [][]feedRec // per task id, merged into feed by stamp
	curInv []int64     // per task id: invoke stamp of the writer operation in progress
	subs   []*subRec
	clk    atomic.Int64
	frozen bool
}

func reqOf(s Sub) *pb.SubscribeRequest {
	r := plainReq(s)
	sl := r.GetSubscribe()
	switch s.Hostile {
	case "":
	case "poll-first":
		return &pb.SubscribeRequest{Request: &pb.SubscribeRequest_Poll{Poll: &pb.Poll{}}}
	case "empty-request":
		return &pb.SubscribeRequest{}
	case "nil-prefix":
		sl.Prefix = nil
	case "empty-target":
		sl.Prefix.Target = ""
	case "unknown-mode":
		sl.Mode = 99
	case "no-subscriptions":
		sl.Subscription = nil
	case "nil-path":
		sl.Subscription = append(sl.Subscription, &pb.Subscription{}, nil)
	case "origin-conflict":
		sl.Prefix.Origin = "a"
		sl.Subscription = append(sl.Subscription, &pb.Subscription{Path: &pb.Path{Origin: "b", Elem: []*pb.PathElem{{Name: "x"}}}})
	case "prefix-elems-with-path-origin":
		sl.Prefix.Elem = []*pb.PathElem{{Name: "p"}}
		sl.Subscription = append(sl.Subscription, &pb.Subscription{Path: &pb.Path{Origin: "b", Elem: []*pb.PathElem{{Name: "x"}}}})
	case "huge-keys":
		e := &pb.PathElem{Name: "k", Key: map[string]string{}}
		for i := 0; i < 300; i++ {
			e.Key[fmt.Sprint("k", i)] = "v"
		}
		sl.Subscription = append(sl.Subscription, &pb.Subscription{Path: &pb.Path{Elem: []*pb.PathElem{e}}})
	case "empty-names":
		sl.Subscription = append(sl.Subscription, &pb.Subscription{Path: &pb.Path{Elem: []*pb.PathElem{{Name: ""}, {Name: ""}}}})
	case "meta-path":
		sl.Subscription = append(sl.Subscription, &pb.Subscription{Path: &pb.Path{Elem: []*pb.PathElem{{Name: "meta"}}}}, &pb.Subscription{Path: &pb.Path{Elem: []*pb.PathElem{{Name: "meta"}, {Name: "*"}, {Name: "*"}}}})
	case "deprecated-element-path":
		sl.Subscription = append(sl.Subscription, &pb.Subscription{Path: &pb.Path{Element: []string{"a", "*"}}})
	case "glob-target-with-origin":
		sl.Prefix.Target, sl.Prefix.Origin = "*", "*"
	}
	return r
}

func plainReq(s Sub) *pb.SubscribeRequest {
	sl := &pb.SubscriptionList{Prefix: gen.Path(s.Prefix, false, 0), UpdatesOnly: s.UpdatesOnly}
	sl.Prefix.Target, sl.Prefix.Origin = s.Target, s.Origin
	switch s.Mode {
	case "once":
		sl.Mode = pb.SubscriptionList_ONCE
	case "poll":
		sl.Mode = pb.SubscriptionList_POLL
	default:
		sl.Mode = pb.SubscriptionList_STREAM
	}
	for _, p := range s.Paths {
		pp := gen.Path(p.Elems, false, 0)
		pp.Origin = p.Origin
		sl.Subscription = append(sl.Subscription, &pb.Subscription{Path: pp})
	}
	return &pb.SubscribeRequest{Request: &pb.SubscribeRequest_Subscribe{Subscribe: sl}}
}

// subPatterns returns, per subscription path, the index pattern within a
// target: [origin] + prefix elements + path elements. ok=false when the
// request is invalid (origin in both places, or prefix elements with an
// origin in the path).
func subPatterns(s Sub) (pats [][]string, ok bool) {
	pre := gen.Index(gen.Path(s.Prefix, false, 0))
	for _, p := range s.Paths {
		var pat []string
		switch {
		case s.Origin != "" && p.Origin != "":
			return nil, false
		case s.Origin != "":
			pat = append(append(pat, s.Origin), pre...)
		case p.Origin != "":
			if len(pre) > 0 {
				return nil, false
			}
			pat = append(pat, p.Origin)
		default:
			pat = append(pat, pre...)
		}
		pats = append(pats, append(pat, gen.Index(gen.Path(p.Elems, false, 0))...))
	}
	return pats, true
}

func (w *world) runStream(x *common.Exec, i int, ops []cacheh.Op, into *[]wrec) {
	target := w.sc.Targets[i]
	b := gen.NewBuilder()
	me := 127
	if t := simrt.Current(); t != nil && t.ID < 127 {
		me = t.ID
	}
	defer func() { w.curInv[me] = 0 }()
	for _, op := range ops {
		if op.K == "wait" { // the target is quiet for a while (virtual time)
			simrt.Sleep(time.Duration(op.V))
			continue
		}
		r := wrec{target: target, op: op, inv: simrt.Stamp(), startNs: int64(x.R.Now())}
		w.curInv[me] = r.inv
		switch op.K {
		case "upd":
			r.noti = b.Build(op.N)
			r.before, _ = proto.MarshalOptions{Deterministic: true}.Marshal(r.noti)
			err := w.c.GnmiUpdate(r.noti)
			switch {
			case err == nil:
				r.class = "ok"
			case errors.Is(err, cache.ErrStale):
				r.class = "stale"
			case errors.Is(err, cache.ErrFuture):
				r.class = "future"
			default:
				r.class = "error"
			}
		case "reset":
			w.c.Reset(target)
		case "remove":
			w.c.Remove(target)
		case "add":
			if !w.c.HasTarget(target) { // Add on an existing target silently replaces it: never generated
				w.c.Add(target)
			}
		case "sync":
			w.c.Sync(target)
		case "connect":
			w.c.Connect(target)
		case "connerr":
			w.c.ConnectError(target, errors.New("dial failed"))
		}
		r.ret = simrt.Stamp()
		r.endNs = int64(x.R.Now())
		*into = append(*into, r)
	}
}

func (H) Execute(x *common.Exec, s any) {
	sc := s.(*Scenario)
	w := &world{sc: sc, w: make([][]wrec, len(sc.Targets)), feeds: make([][]feedRec, 128), curInv: make([]int64, 128), frozen: x.R.Cfg.ClockP == 0 && x.R.Cfg.TickNs == 0}
	w.clk.Store(1000)
	now := func() time.Time { return time.Unix(0, w.clk.Add(1)) } // strictly increasing readings
	oldNow, oldLat := cache.Now, latency.Now
	cache.Now, latency.Now = now, now
	defer func() { cache.Now, latency.Now = oldNow, oldLat }()
	simgrpc.SetHooks(&simgrpc.Hooks{Window: sc.Window})

	var copts []cache.Option
	if !sc.Opts.EventDriven {
		copts = append(copts, cache.DisableEventDrivenEmulation())
	}
	w.c = cache.New(sc.Targets, copts...)
	sopts := []subscribe.Option{subscribe.WithTimeout(time.Duration(sc.TimeoutNs))}
	if sc.Stats {
		sopts = append(sopts, subscribe.WithStats())
	}
	if sc.NoDup {
		sopts = append(sopts, subscribe.WithoutDupReport())
	}
	if sc.ACL != nil {
		a := &acl{table: sc.ACL, bad: map[string]bool{}}
		for _, b := range sc.BadUsers {
			a.bad[b] = true
		}
		sopts = append(sopts, subscribe.WithACL(a))
	}
	w.srv, _ = subscribe.NewServer(w.c, sopts...)
	w.c.SetClient(func(l *ctree.Leaf) {
		if n, ok := l.Value().(*pb.Notification); ok {
			id := 127
			if t := simrt.Current(); t != nil && t.ID < 127 {
				id = t.ID
			}
			st := simrt.Stamp()
			inv := w.curInv[id]
			if inv == 0 {
				inv = st
			}
			w.feeds[id] = append(w.feeds[id], feedRec{stamp: st, opInv: inv, n: proto.Clone(n).(*pb.Notification)})
			defer func(k int) { w.feeds[id][k].end = simrt.Stamp() }(len(w.feeds[id]) - 1)
		}
		w.srv.Update(l)
	})
	w.gs = simgrpc.NewServer()
	pb.RegisterGNMIServer(w.gs, w.srv)

	// Preload, sequentially, before anybody subscribes.
	pre := make([][]wrec, len(sc.Targets))
	x.R.Go("preload", func() {
		simrt.Quietly(func() {
			for i, ops := range sc.Preload {
				if i < len(sc.Targets) {
					w.runStream(x, i, ops, &pre[i])
				}
			}
		})
	})
	if x.R.Schedule(true, nil) != simrt.AllDone {
		x.Inconclusive = "preload-stuck"
		return
	}
	x.R.AcquireEnd()
	for i := range pre {
		w.w[i] = append(w.w[i], pre[i]...)
	}

	var writers []*simrt.Task
	for i := range sc.Streams {
		i := i
		if i >= len(sc.Targets) {
			break
		}
		var recs []wrec
		t := x.R.Go("stream-"+sc.Targets[i], func() {
			w.runStream(x, i, sc.Streams[i], &recs)
			w.w[i] = append(w.w[i], recs...)
		})
		writers = append(writers, t)
	}
	ctx, cancelAll := context.WithCancel(context.Background())
	defer cancelAll()
	for k := range sc.Subs {
		sr := &subRec{sub: sc.Subs[k]}
		w.subs = append(w.subs, sr)
		x.R.Go(fmt.Sprintf("sub%d", k), func() { w.reader(x, ctx, sr) })
	}
	// Phase 1: chaos until quiescence.
	out := x.R.Schedule(false, nil)
	x.R.AcquireEnd()
	if out == simrt.StepLimit {
		x.Inconclusive = "step-limit"
		return
	}
	if bl := x.R.BlockedOnLocks(); len(bl) > 0 && out == simrt.Quiescent {
		// tasks waiting for each other's locks with nothing else able to happen:
		// whatever the property under test promises (a sync, a snapshot, a
		// delivery, the end of an RPC) will never come
		x.Violate(x.Prop+"/deadlock", "tasks are blocked on locks forever: %v\nall tasks: %s", bl, x.R.Summary())
	}
	var stuck []string
	for _, t := range writers {
		if !x.R.TaskDone(t) {
			stuck = append(stuck, x.R.TaskState(t))
		}
	}
	if len(stuck) > 0 {
		x.Violate("C08/writer-blocked", "the cache stopped accepting updates: %v\nall tasks: %s", stuck, x.R.Summary())
		return
	}
	// Fair drain (stalled readers that resume, queues that empty).
	if out2 := x.R.Schedule(true, nil); out2 == simrt.StepLimit {
		x.Inconclusive = "step-limit"
		return
	}
	x.R.AcquireEnd()
	// Final cache content, read by a task.
	final := map[string]map[string]string{}
	finalTS := map[string]map[string]int64{}
	x.R.Go("final", func() {
		simrt.Quietly(func() {
			for _, tg := range sc.Targets {
				if !w.c.HasTarget(tg) {
					continue
				}
				m, ts := map[string]string{}, map[string]int64{}
				w.c.Query(tg, []string{"*"}, func(p []string, _ *ctree.Leaf, v interface{}) error {
					if n, ok := v.(*pb.Notification); ok {
						m[gen.Key(p)] = gen.CanonContent(n)
						ts[gen.Key(p)] = n.Timestamp
					}
					return nil
				})
				final[tg], finalTS[tg] = m, ts
			}
		})
	})
	x.R.Schedule(true, nil)
	x.R.AcquireEnd()
	w.judge(x, final, finalTS)
	// Phase 3: end every RPC; all handlers must return and deregister.
	cancelAll()
	x.R.Schedule(true, nil)
	x.R.AcquireEnd()
	w.judgeEnd(x)
}

// reader is the client side of one subscription.
func (w *world) reader(x *common.Exec, ctx context.Context, sr *subRec) {
	for i := 0; i < sr.sub.Delay; i++ {
		simrt.Yield("sub.delay")
	}
	cctx := ctx
	if sr.sub.User != "" {
		cctx = metadata.NewOutgoingContext(ctx, metadata.Pairs("user", sr.sub.User))
	}
	sctx, cancel := context.WithCancel(cctx)
	defer cancel()
	st, err := w.gs.StartStream(sctx, "/gnmi.gNMI/Subscribe", "collector")
	if err != nil {
		sr.recvErr = err
		return
	}
	stop := context.AfterFunc(sctx, func() { st.End(status.Error(codes.Canceled, "client cancelled")) })
	defer stop()
	sr.st = st
	cs := st.ClientSide()
	sr.inv = simrt.Stamp()
	sr.started = true
	switch sr.sub.Hostile {
	case "no-request-half-close":
		cs.CloseSend() // a client that opens the RPC and ends its side without ever sending a request
	case "no-request-cancel":
		cancel() // a client that opens the RPC and goes away
	default:
		if err := cs.SendMsg(reqOf(sr.sub)); err != nil && err != io.EOF {
			sr.recvErr = err
			return
		} // io.EOF: the RPC has already ended; RecvMsg reports its status
	}
	n := 0
	polls := 0
	for {
		if sr.sub.SlowNs > 0 {
			simrt.Sleep(time.Duration(sr.sub.SlowNs))
		}
		if sr.sub.StallNs != 0 && n == sr.sub.StallAt && sr.stallFrom == 0 {
			sr.stallFrom, sr.stallNs = simrt.Stamp(), int64(x.R.Now())
			if sr.sub.StallNs < 0 {
				simrt.Recv(ctx.Done()) // stalled for good
				sr.stallTo = simrt.Stamp()
				return
			}
			simrt.Sleep(time.Duration(sr.sub.StallNs))
			sr.stallTo = simrt.Stamp()
		}
		m := &pb.SubscribeResponse{}
		err := cs.RecvMsg(m)
		if err != nil {
			sr.endStamp = simrt.Stamp()
			if ctx.Err() == nil {
				sr.ended = true
				sr.recvErr = err
			}
			return
		}
		n++
		sr.resps = append(sr.resps, resp{stamp: simrt.Stamp(), ns: int64(x.R.Now()), r: m})
		if sr.sub.CancelAt > 0 && n >= sr.sub.CancelAt {
			sr.cancelled = simrt.Stamp()
			stop() // end the RPC from this task, not from the context's own goroutine
			st.End(status.Error(codes.Canceled, "client cancelled"))
			return
		}
		if m.GetSyncResponse() && sr.sub.Mode == "poll" {
			if polls < sr.sub.Polls {
				polls++
				if sr.sub.PollIdleNs > 0 {
					simrt.Sleep(time.Duration(sr.sub.PollIdleNs))
				}
				sr.triggers = append(sr.triggers, simrt.Stamp())
				cs.SendMsg(&pb.SubscribeRequest{Request: &pb.SubscribeRequest_Poll{Poll: &pb.Poll{}}})
			} else {
				cs.CloseSend()
			}
		}
	}
}

// ---------------------------------------------------------------- judging

func (w *world) allowed(sr *subRec, target string) bool {
	if w.sc.ACL == nil {
		return true
	}
	for _, t := range w.sc.ACL[sr.sub.User] {
		if t == target {
			return true
		}
	}
	return false
}

func (w *world) badUser(sr *subRec) bool {
	if w.sc.ACL == nil {
		return false
	}
	for _, b := range w.sc.BadUsers {
		if b == sr.sub.User {
			return true
		}
	}
	return sr.sub.User == ""
}

// queryMatch / compat of a leaf key (within target) against the subscription.
func queryMatch(pats [][]string, key []string) int {
	best := gen.No
	for _, p := range pats {
		switch gen.Match(p, key) {
		case gen.Must:
			return gen.Must
		case gen.May:
			best = gen.May
		}
	}
	return best
}

func compat(pats [][]string, key []string) bool {
	for _, p := range pats {
		ok := true
		for i := 0; i < len(p) && i < len(key); i++ {
			if p[i] != "*" && key[i] != "*" && p[i] != key[i] {
				ok = false
			}
		}
		if ok {
			return true
		}
	}
	return false
}

func describe(sr *subRec) string {
	var sb strings.Builder
	fmt.Fprintf(&sb, "subscriber{%s target=%s user=%q updates_only=%v paths=", sr.sub.Mode, sr.sub.Target, sr.sub.User, sr.sub.UpdatesOnly)
	pats, ok := subPatterns(sr.sub)
	if !ok {
		sb.WriteString("<invalid origin combination>")
	}
	for _, p := range pats {
		sb.WriteString(gen.Show(gen.Key(p)) + " ")
	}
	fmt.Fprintf(&sb, "inv=%d ended=%v err=%v stall(at=%d ns=%d from=%d to=%d) slow=%d", sr.inv, sr.ended, sr.recvErr, sr.sub.StallAt, sr.sub.StallNs, sr.stallFrom, sr.stallTo, sr.sub.SlowNs)
	if sr.st != nil {
		done := false
		select {
		case <-sr.st.Done():
			done = true
		default:
		}
		fmt.Fprintf(&sb, " handed-to-Send=%d rpc-done=%v status=%v", len(sr.st.Sent), done, sr.st.Status())
		if n := len(sr.st.Sent); n > 0 {
			m := &pb.SubscribeResponse{}
			if proto.Unmarshal(sr.st.Sent[n-1], m) == nil {
				if m.GetSyncResponse() {
					sb.WriteString(" last-handed-to-Send=sync")
				} else if m.GetUpdate() != nil {
					sb.WriteString(" last-handed-to-Send=" + compact(m.GetUpdate()))
				}
			}
		}
	}
	sb.WriteString("}\n")
	for _, r := range sr.resps {
		switch {
		case r.r.GetSyncResponse():
			fmt.Fprintf(&sb, "    [%d] sync\n", r.stamp)
		case r.r.GetUpdate() != nil:
			fmt.Fprintf(&sb, "    [%d] %s\n", r.stamp, compact(r.r.GetUpdate()))
		default:
			fmt.Fprintf(&sb, "    [%d] %v\n", r.stamp, r.r)
		}
	}
	return sb.String()
}

func compact(n *pb.Notification) string {
	var sb strings.Builder
	fmt.Fprintf(&sb, "{ts=%d", n.Timestamp)
	if n.Atomic {
		sb.WriteString(" atomic")
	}
	if n.Prefix != nil {
		fmt.Fprintf(&sb, " prefix=%s:%s%s", n.Prefix.Target, n.Prefix.Origin, gen.Show(gen.Key(gen.Index(n.Prefix))))
	}
	for _, u := range n.Update {
		fmt.Fprintf(&sb, " upd %s=%s", gen.Show(gen.Key(gen.Index(u.Path))), gen.CanonUpdateVal(u))
		if u.Duplicates > 0 {
			fmt.Fprintf(&sb, "(dup %d)", u.Duplicates)
		}
	}
	for _, d := range n.Delete {
		fmt.Fprintf(&sb, " del %s", gen.Show(gen.Key(gen.Index(d))))
	}
	sb.WriteString("}")
	return sb.String()
}

func (w *world) history() string {
	var all []wrec
	for _, ws := range w.w {
		all = append(all, ws...)
	}
	sort.Slice(all, func(i, j int) bool { return all[i].inv < all[j].inv })
	var sb strings.Builder
	for _, r := range all {
		fmt.Fprintf(&sb, "    [%d,%d] %s %s", r.inv, r.ret, r.target, r.op.K)
		if r.noti != nil {
			fmt.Fprintf(&sb, " %s -> %s", compact(r.noti), r.class)
		}
		sb.WriteString("\n")
	}
	return sb.String()
}

// targetsOf lists the targets a subscription addresses.
func (w *world) targetsOf(sr *subRec) []string {
	if sr.sub.Target == "*" {
		return w.sc.Targets
	}
	return []string{sr.sub.Target}
}

// countFaults reports the faults that actually fired in this run (read from
// the records after all tasks have parked).
func (w *world) countFaults(x *common.Exec) {
	for _, sr := range w.subs {
		if !sr.started {
			continue
		}
		if sr.cancelled != 0 {
			x.Fault("subscriber-cancels-rpc")
		}
		if sr.stallFrom != 0 {
			if sr.sub.StallNs < 0 {
				x.Fault("subscriber-stalls-for-good")
			} else {
				x.Fault("subscriber-stalls-transiently")
			}
		}
		if sr.sub.SlowNs > 0 && len(sr.resps) > 0 {
			x.Fault("subscriber-reads-slowly")
		}
		if sr.sub.PollIdleNs > int64(w.sc.TimeoutNs) && len(sr.triggers) > 0 {
			x.Fault("poll-client-idle-longer-than-send-timeout")
		}
		if sr.sub.Hostile != "" {
			x.Fault("hostile-request:" + sr.sub.Hostile)
		}
		if sr.ended && strings.Contains(fmt.Sprint(sr.recvErr), "timed out") {
			x.Fault("send-timeout-fired")
		}
	}
	for _, ws := range w.w {
		for _, r := range ws {
			switch r.op.K {
			case "reset", "remove", "add", "connerr":
				x.Fault("target-" + r.op.K)
			}
			if r.class == "stale" || r.class == "future" {
				x.Fault("update-rejected-" + r.class)
			}
		}
	}
	for _, ops := range w.sc.Streams {
		for _, op := range ops {
			if op.K == "wait" {
				x.Fault("target-quiet-period")
			}
		}
	}
	if w.sc.ACL != nil {
		x.Fault("acl-installed")
	}
}

func (w *world) judge(x *common.Exec, final map[string]map[string]string, finalTS map[string]map[string]int64) {
	w.countFaults(x)
	// The caller's notification is left unmodified (C03) - also after the
	// cache handed it to the Subscribe server and slow subscribers had their
	// coalesced copies of it delivered.
	for _, ws := range w.w {
		for _, r := range ws {
			if r.noti == nil || r.before == nil {
				continue
			}
			x.Oblige(1)
			if now, _ := (proto.MarshalOptions{Deterministic: true}).Marshal(r.noti); string(now) != string(r.before) {
				was := &pb.Notification{}
				proto.Unmarshal(r.before, was)
				x.Violate("C03/input-mutated-after-delivery", "the notification a target's stream handed to GnmiUpdate was changed afterwards (the cache stores the caller's object; something downstream wrote into it)\nwas %s\nnow %s", compact(was), compact(r.noti))
				x.Violate("C08/cached-notification-mutated", "a notification stored in the cache (shared by every subscriber) was modified while it was delivered\nwas %s\nnow %s", compact(was), compact(r.noti))
				return
			}
		}
	}
	sc := w.sc
	w.feed = nil
	for _, f := range w.feeds {
		w.feed = append(w.feed, f...)
	}
	sort.Slice(w.feed, func(i, j int) bool { return w.feed[i].stamp < w.feed[j].stamp })
	nResp := 0
	h := fnv.New64a()
	// writes per (target,key) in feed order: contents accepted by the cache
	type wv struct {
		stamp   int64
		content string
		del     bool
	}
	writes := map[string][]wv{}
	for _, f := range w.feed {
		tg, es := cachemodel.FeedEntries(f.n)
		for _, e := range es {
			if e.Kind == "upd" {
				k := tg + "\x00" + e.Key
				writes[k] = append(writes[k], wv{stamp: f.stamp, content: e.Content})
			}
		}
	}
	for si, sr := range w.subs {
		nResp += len(sr.resps)
		pats, valid := subPatterns(sr.sub)
		fmt.Fprintf(h, "%d:%d;", si, len(sr.resps))
		// ---- C07: nothing for a denied target is ever handed to Send.
		if sc.ACL != nil && sr.st != nil {
			x.Oblige(1)
			for _, b := range sr.st.Sent {
				m := &pb.SubscribeResponse{}
				if proto.Unmarshal(b, m) == nil && m.GetUpdate() != nil {
					if tg := m.GetUpdate().GetPrefix().GetTarget(); !w.allowed(sr, tg) {
						x.Violate("C07/denied-target-sent", "a response for target %q was sent to user %q who is only authorised for %v: %s\n%s", tg, sr.sub.User, sc.ACL[sr.sub.User], compact(m.GetUpdate()), describe(sr))
					}
				}
			}
		}
		if !sr.started || sr.sub.Hostile != "" {
			continue
		}
		// ---- request-level outcomes
		code := codes.OK
		if sr.ended && sr.recvErr != nil && sr.recvErr != io.EOF {
			code = status.Code(sr.recvErr)
		}
		rpcDone, rpcCode := false, codes.OK
		select {
		case <-sr.st.Done():
			rpcDone, rpcCode = true, status.Code(sr.st.Status())
		default:
		}
		switch {
		case w.badUser(sr):
			x.Oblige(1)
			if !rpcDone || rpcCode != codes.Unauthenticated || len(sr.st.Sent) > 0 {
				x.Violate("C07/unauthenticated-not-rejected", "per-call authorisation cannot be established for user %q but the call ended=%v code=%v after %d message(s)\n%s", sr.sub.User, rpcDone, rpcCode, len(sr.st.Sent), describe(sr))
			}
			continue
		case sc.ACL != nil && sr.sub.Target != "*" && !w.allowed(sr, sr.sub.Target) && w.targetKnownAtSubscribe(sr):
			x.Oblige(1)
			if !rpcDone || rpcCode != codes.PermissionDenied || len(sr.st.Sent) > 0 {
				x.Violate("C07/denied-not-rejected", "user %q is not authorised for %q but the call ended=%v code=%v after %d message(s)\n%s", sr.sub.User, sr.sub.Target, rpcDone, rpcCode, len(sr.st.Sent), describe(sr))
			}
			continue
		}
		if !valid {
			x.Oblige(1)
			for _, r := range sr.resps {
				if r.r.GetUpdate() != nil && sr.sub.Mode != "stream" {
					x.Violate("C05/invalid-request-served", "a request with conflicting origins returned data\n%s", describe(sr))
				}
			}
			continue
		}
		if rpcDone && rpcCode == codes.NotFound {
			continue // the target did not exist when the call arrived
		}
		if sr.cancelled != 0 {
			continue // went away by itself; what matters is that the others do not notice
		}
		if rpcDone && rpcCode == codes.PermissionDenied && sc.ACL != nil && sr.sub.Target != "*" && !w.allowed(sr, sr.sub.Target) {
			continue // denied; whether the target existed at that instant is not known to the oracle
		}
		// ---- sync discipline
		syncs := []int{}
		for i, r := range sr.resps {
			if r.r.GetSyncResponse() {
				syncs = append(syncs, i)
			}
		}
		stalledForGood := sr.sub.StallNs < 0 && sr.stallFrom != 0
		timedOut := sr.ended && code != codes.OK
		// A subscriber that always reads promptly is never timed out: the send
		// timeout only runs while a send is pending.
		if timedOut && sr.sub.StallNs == 0 && sr.sub.SlowNs == 0 && strings.Contains(fmt.Sprint(sr.recvErr), "timed out") {
			x.Oblige(1)
			x.Violate("C08/prompt-reader-timed-out", "a subscriber that never stalled was terminated with %v\n%s  writers:\n%s", sr.recvErr, describe(sr), w.history())
			if sc.ACL != nil {
				x.Violate("C07/authorised-subscriber-terminated", "with an ACL installed, a subscriber that never stalled was terminated with %v: what it is authorised for is no longer delivered\n%s", sr.recvErr, describe(sr))
			}
			// the same event seen from the subscriber's side: it no longer gets what
			// its mode promises (later changes / later polls)
			if sr.sub.Mode == "stream" {
				x.Violate("C04/prompt-reader-timed-out", "a STREAM subscriber that never stalled was terminated with %v and receives no further changes\n%s", sr.recvErr, describe(sr))
			} else {
				x.Violate("C05/prompt-reader-timed-out", "a %s subscriber that never stalled was terminated with %v\n%s", sr.sub.Mode, sr.recvErr, describe(sr))
			}
			return
		}
		switch sr.sub.Mode {
		case "stream":
			x.Oblige(1)
			if len(syncs) > 1 {
				x.Violate("C04/more-than-one-sync", "%d sync responses on a STREAM subscription\n%s", len(syncs), describe(sr))
			}
			if len(syncs) == 0 && !stalledForGood && !timedOut && !sr.ended {
				x.Violate("C04/no-sync", "no sync response although the system is quiescent\n%s%s", describe(sr), w.history())
			}
			if sr.sub.UpdatesOnly && len(syncs) == 1 && syncs[0] != 0 {
				x.Violate("C04/updates-only-sync-not-first", "updates_only: the sync response is message %d\n%s", syncs[0], describe(sr))
			}
			if !stalledForGood && !timedOut {
				w.judgeStream(x, sr, pats, syncs, final, finalTS)
			}
		case "once", "poll":
			w.judgeOncePoll(x, sr, pats, syncs, final)
		}
		// ---- per leaf order (all modes): delivered values follow write order
		x.Oblige(1)
		last := map[string]int{}
		for _, r := range sr.resps {
			n := r.r.GetUpdate()
			if n == nil {
				continue
			}
			tg, es := cachemodel.FeedEntries(n)
			for _, e := range es {
				if e.Kind != "upd" {
					continue
				}
				k := tg + "\x00" + e.Key
				ws := writes[k]
				p, ok := last[k]
				if !ok {
					p = -1
				}
				found := -1
				if p >= 0 && ws[p].content == e.Content {
					found = p
				} else {
					for q := p + 1; q < len(ws); q++ {
						if ws[q].content == e.Content {
							found = q
							break
						}
					}
				}
				if found < 0 {
					var seq []string
					for _, v := range ws {
						seq = append(seq, v.content)
					}
					x.Violate("C04/value-order-or-invented", "leaf %s of %s: delivered %s, which is not the next value in write order (writes accepted by the cache, in order: %v; previous delivery index %d)\n%s%s", gen.Show(e.Key), tg, e.Content, seq, p, describe(sr), w.history())
					break
				}
				last[k] = found
			}
		}
	}
	x.NonTrivial = nResp > 0 && len(w.feed) > 0
	x.StateHash = h.Sum64()
	w.judgeStalls(x)
}

func (w *world) targetKnownAtSubscribe(sr *subRec) bool {
	// Known for sure if it was never removed; otherwise the answer may be NotFound.
	for i, tg := range w.sc.Targets {
		if tg == sr.sub.Target {
			for _, r := range w.w[i] {
				if r.op.K == "remove" {
					return false
				}
			}
			return true
		}
	}
	return false
}

// lifecycleTouches reports whether target had a remove/add (which makes
// window reasoning about "present at subscription time" unreliable).
func (w *world) hasOp(target string, kinds ...string) bool {
	for i, tg := range w.sc.Targets {
		if tg != target {
			continue
		}
		for _, r := range w.w[i] {
			for _, k := range kinds {
				if r.op.K == k {
					return true
				}
			}
		}
	}
	return false
}

// applyBefore applies a writer operation to a model used only to know what
// was certainly stored at some instant: leaves that a delete may have removed
// (trailing glob one element past a leaf) are dropped from the model.
func applyBefore(m *cachemodel.Target, r wrec, o cachemodel.Opts) {
	switch r.op.K {
	case "upd":
		exp := m.Apply(r.noti, o, nil)
		for _, g := range exp.Groups {
			for _, fe := range g {
				if fe.Kind == "del" && fe.May {
					delete(m.Leaves, fe.Key)
				}
			}
		}
	case "reset":
		m.Reset()
	}
}

func (w *world) judgeStream(x *common.Exec, sr *subRec, pats [][]string, syncs []int, final map[string]map[string]string, finalTS map[string]map[string]int64) {
	// Replay of the responses.
	rp := cachemodel.Replay{}
	rpTS := map[string]int64{}
	for _, r := range sr.resps {
		if n := r.r.GetUpdate(); n != nil {
			rp.Feed(n)
			tg, es := cachemodel.FeedEntries(n)
			for _, e := range es {
				if e.Kind == "upd" {
					rpTS[tg+"\x00"+e.Key] = n.Timestamp
				}
			}
		}
	}
	for _, tg := range w.targetsOf(sr) {
		if !w.allowed(sr, tg) {
			x.Oblige(1)
			if len(rp[tg]) > 0 {
				x.Violate("C07/denied-target-delivered", "content of denied target %s reached the subscriber\n%s", tg, describe(sr))
			}
			continue
		}
		cacheLeaves := final[tg] // nil if the target is gone
		// A single-target stream ends when its target is removed; what was
		// delivered before is judged by judgeEnd.
		if sr.ended {
			continue
		}
		x.Oblige(2)
		// (1) every query-matching leaf of the cache is in the replay with the same content
		if !sr.sub.UpdatesOnly {
			for k, content := range cacheLeaves {
				if queryMatch(pats, gen.Unkey(k)) != gen.Must {
					continue
				}
				if got, ok := rp[tg][k]; !ok || got != content {
					x.Violate("C04/replay-missing-or-stale", "target %s leaf %s: the cache holds %s, replaying the subscriber's responses gives %q (present=%v)\n%s  writers:\n%s", tg, gen.Show(k), content, got, ok, describe(sr), w.history())
					// the same event as the streaming filter sees it: a leaf a query for
					// the subscription returns was not (or not up to date) streamed
					x.Violate("C06/query-leaf-not-streamed-to-subscriber", "target %s leaf %s matches the subscription and the cache holds %s, but the subscriber's view is %q (present=%v)\n%s", tg, gen.Show(k), content, got, ok, describe(sr))
					return
				}
			}
		}
		// (2) everything in the replay is current
		for k, content := range rp[tg] {
			if !compat(pats, gen.Unkey(k)) {
				x.Violate("C06/delivered-incompatible-path", "target %s leaf %s was streamed to a subscriber none of whose paths agrees with it\n%s", tg, gen.Show(k), describe(sr))
				return
			}
			// Leaves that are only stream-compatible (shorter than the
			// subscription path) are not "matching content" in the sense of
			// the statement: nothing further is asserted about them.
			if queryMatch(pats, gen.Unkey(k)) == gen.No {
				continue
			}
			want, ok := cacheLeaves[k]
			if !ok {
				if _, known := final[tg]; !known {
					// the whole target is gone from the cache, the subscriber still shows it
					x.Violate("C14/removed-target-still-in-subscriber-view", "target %s is unknown to the cache (removed), but replaying the responses of a subscriber that is in sync still gives %s=%s: the whole-target delete did not cover it\n%s  writers:\n%s", tg, gen.Show(k), content, describe(sr), w.history())
				}
				x.Violate("C04/replay-extra-leaf", "target %s leaf %s=%s is in the replay of the subscriber's responses but not in the cache (a delete was not delivered)\n%s  writers:\n%s", tg, gen.Show(k), content, describe(sr), w.history())
				return
			}
			if want != content {
				x.Violate("C04/replay-missing-or-stale", "target %s leaf %s: the cache holds %s, the subscriber's last delivered value is %s\n%s  writers:\n%s", tg, gen.Show(k), want, content, describe(sr), w.history())
				return
			}
			if ts := rpTS[tg+"\x00"+k]; ts > finalTS[tg][k] {
				x.Violate("C04/timestamp-from-the-future", "target %s leaf %s delivered with timestamp %d, the cache has %d", tg, gen.Show(k), ts, finalTS[tg][k])
			}
		}
	}
	// (3) leaves present at subscription time arrive before the sync.
	if len(syncs) == 1 && !sr.sub.UpdatesOnly {
		syncStamp := sr.resps[syncs[0]].stamp
		before := map[string]bool{}
		for _, r := range sr.resps[:syncs[0]] {
			if n := r.r.GetUpdate(); n != nil {
				tg, es := cachemodel.FeedEntries(n)
				for _, e := range es {
					if e.Kind == "upd" {
						before[tg+"\x00"+e.Key] = true
					}
				}
			}
		}
		for i, tg := range w.sc.Targets {
			if sr.sub.Target != "*" && sr.sub.Target != tg || !w.allowed(sr, tg) {
				continue
			}
			if w.hasOp(tg, "remove", "add") {
				continue
			}
			// last state of each key strictly before the subscription, from this target's stream
			m := cachemodel.NewTarget()
			for _, r := range w.w[i] {
				if r.ret >= sr.inv {
					break
				}
				applyBefore(m, r, w.sc.Opts)
			}
			for k := range m.Leaves {
				if cachemodel.IsMeta(k) || queryMatch(pats, gen.Unkey(k)) != gen.Must {
					continue
				}
				// threatened by any delete-capable operation that overlaps [sub.inv, sync]
				threatened := false
				for _, r := range w.w[i] {
					if r.ret >= sr.inv && r.inv <= syncStamp {
						if r.op.K == "reset" || r.op.K == "upd" && (len(r.noti.Delete) > 0) {
							threatened = true
						}
					}
				}
				if threatened {
					continue
				}
				x.Oblige(1)
				if !before[tg+"\x00"+k] {
					x.Violate("C04/present-leaf-not-before-sync", "target %s leaf %s was stored before the subscription started (stamp %d) and not deleted meanwhile, but was not delivered before the sync response (stamp %d)\n%s  writers:\n%s", tg, gen.Show(k), sr.inv, syncStamp, describe(sr), w.history())
					return
				}
			}
		}
	}
}

func (w *world) judgeOncePoll(x *common.Exec, sr *subRec, pats [][]string, syncs []int, final map[string]map[string]string) {
	wantRounds := 1
	if sr.sub.Mode == "poll" {
		wantRounds = 1 + len(sr.triggers)
	}
	stalled := sr.sub.StallNs < 0 && sr.stallFrom != 0
	code := codes.OK
	if sr.ended && sr.recvErr != nil && sr.recvErr != io.EOF {
		code = status.Code(sr.recvErr)
	}
	if stalled || code != codes.OK && (sr.sub.StallNs != 0 || sr.sub.SlowNs != 0) {
		return // the flow-control fault decides (C08)
	}
	if code != codes.OK {
		x.Oblige(1)
		x.Violate("C05/terminated-with-error", "%s subscription of a prompt reader ended with %v after %d sync response(s) and %d poll trigger(s)\n%s", sr.sub.Mode, sr.recvErr, len(syncs), len(sr.triggers), describe(sr))
		return
	}
	x.Oblige(2)
	if len(syncs) != wantRounds {
		x.Violate("C05/sync-count", "%s subscription with %d poll trigger(s): %d sync response(s), want %d\n%s", sr.sub.Mode, len(sr.triggers), len(syncs), wantRounds, describe(sr))
		return
	}
	if !sr.ended || (sr.recvErr != io.EOF && sr.recvErr != nil) {
		x.Violate("C05/stream-not-ended-ok", "%s subscription: after the last sync the stream must end successfully; ended=%v err=%v\n%s", sr.sub.Mode, sr.ended, sr.recvErr, describe(sr))
		return
	}
	if len(sr.resps) > 0 && !sr.resps[len(sr.resps)-1].r.GetSyncResponse() {
		x.Violate("C05/data-after-last-sync", "responses after the last sync\n%s", describe(sr))
	}
	start := 0
	roundInv := sr.inv
	for ri, si := range syncs {
		round := sr.resps[start:si]
		syncStamp := sr.resps[si].stamp
		got := map[string]string{}
		for _, r := range round {
			n := r.r.GetUpdate()
			if n == nil {
				continue
			}
			tg, es := cachemodel.FeedEntries(n)
			for _, e := range es {
				x.Oblige(1)
				if e.Kind != "upd" {
					x.Violate("C05/delete-in-snapshot", "a delete in a %s snapshot\n%s", sr.sub.Mode, describe(sr))
					continue
				}
				if !w.allowed(sr, tg) {
					continue // C07 reports it
				}
				if sr.sub.Target != "*" && tg != sr.sub.Target {
					x.Violate("C05/foreign-target", "leaf of target %s in a snapshot of %s\n%s", tg, sr.sub.Target, describe(sr))
				}
				if queryMatch(pats, gen.Unkey(e.Key)) == gen.No {
					x.Violate("C05/returned-nonmatching", "round %d returned %s:%s which matches none of the subscription paths\n%s", ri, tg, gen.Show(e.Key), describe(sr))
				}
				// a value the leaf held during the call
				held := false
				for _, f := range w.feed {
					t2, es2 := cachemodel.FeedEntries(f.n)
					if t2 != tg || f.opInv > syncStamp {
						continue
					}
					for _, e2 := range es2 {
						if e2.Kind == "upd" && e2.Key == e.Key && e2.Content == e.Content {
							// not overwritten / deleted for sure before the round started
							over := false
							for _, f3 := range w.feed {
								if f3.stamp > f.stamp && f3.stamp < roundInv {
									t3, es3 := cachemodel.FeedEntries(f3.n)
									for _, e3 := range es3 {
										if t3 == tg && (e3.Kind == "upd" && e3.Key == e.Key && e3.Content != e.Content || e3.Kind == "del" && gen.Match(gen.Unkey(e3.Key), gen.Unkey(e.Key)) != gen.No) {
											over = true
										}
									}
								}
							}
							if !over {
								held = true
							}
						}
					}
				}
				if !held {
					x.Violate("C05/value-not-held-during-call", "round %d returned %s:%s=%s, a value that leaf did not hold between the start of the round (stamp %d) and its sync (stamp %d)\n%s  writers:\n%s", ri, tg, gen.Show(e.Key), e.Content, roundInv, syncStamp, describe(sr), w.history())
				}
				got[tg+"\x00"+e.Key] = e.Content
			}
		}
		// must-set: present throughout the round
		for i, tg := range w.sc.Targets {
			if sr.sub.Target != "*" && sr.sub.Target != tg || !w.allowed(sr, tg) || w.hasOp(tg, "remove", "add") {
				continue
			}
			m := cachemodel.NewTarget()
			for _, r := range w.w[i] {
				if r.ret >= roundInv {
					break
				}
				applyBefore(m, r, w.sc.Opts)
			}
			quiet := true // no writer activity on this target during the round
			for _, r := range w.w[i] {
				if r.ret >= roundInv && r.inv <= syncStamp {
					quiet = false
				}
			}
			for k, l := range m.Leaves {
				if cachemodel.IsMeta(k) || queryMatch(pats, gen.Unkey(k)) != gen.Must {
					continue
				}
				if !quiet {
					threatened := false
					for _, r := range w.w[i] {
						if r.ret >= roundInv && r.inv <= syncStamp && (r.op.K == "reset" || r.op.K == "upd" && len(r.noti.Delete) > 0) {
							threatened = true
						}
					}
					if threatened {
						continue
					}
				}
				x.Oblige(1)
				c, ok := got[tg+"\x00"+k]
				if !ok {
					x.Violate("C05/matching-leaf-not-returned", "round %d: leaf %s:%s was stored for the whole call and matches, but was not returned\n%s  writers:\n%s", ri, tg, gen.Show(k), describe(sr), w.history())
					return
				}
				if quiet && c != l.Content {
					x.Violate("C05/wrong-value-static", "round %d: leaf %s:%s returned %s, the unchanging cache holds %s\n%s", ri, tg, gen.Show(k), c, l.Content, describe(sr))
				}
			}
			if quiet {
				// exactly the matching set
				for gk := range got {
					if strings.HasPrefix(gk, tg+"\x00") {
						k := strings.TrimPrefix(gk, tg+"\x00")
						if _, ok := m.Leaves[k]; !ok && !cachemodel.IsMeta(k) {
							x.Violate("C05/extra-leaf-static", "round %d returned %s:%s which the unchanging cache does not hold\n%s", ri, tg, gen.Show(k), describe(sr))
						}
					}
				}
			}
		}
		start = si + 1
		if ri < len(sr.triggers) {
			roundInv = sr.triggers[ri]
		}
	}
}

// judgeStalls: C08 clauses that need the whole run.
func (w *world) judgeStalls(x *common.Exec) {
	sc := w.sc
	// (1) zero virtual time for writers when the clock policy is frozen: a
	// writer never waits for a timer (e.g. a subscriber's send timeout).
	if w.frozen {
		for _, ws := range w.w {
			for _, r := range ws {
				x.Oblige(1)
				if r.endNs > r.startNs {
					anySleep := false
					for _, s := range sc.Subs {
						if s.SlowNs > 0 || s.StallNs > 0 {
							anySleep = true
						}
					}
					if !anySleep {
						x.Violate("C08/writer-waited", "operation %s on %s took %v of virtual time: accepting an update waited for a timer\n%s", r.op.K, r.target, time.Duration(r.endNs-r.startNs), w.history())
						return
					}
				}
			}
		}
	}
	for _, sr := range w.subs {
		if sr.st == nil || !sr.started || sr.sub.Hostile != "" {
			continue
		}
		delivered := len(sr.resps)
		sent := len(sr.st.Sent)
		// (4) a Send that is blocked for good must have ended the RPC by timeout
		if sr.sub.StallNs < 0 && sr.stallFrom != 0 {
			x.Oblige(1)
			blocked := sent > delivered+sc.Window
			select {
			case <-sr.st.Done():
				if st := sr.st.Status(); blocked && status.Code(st) == codes.OK {
					x.Violate("C08/blocked-send-ended-ok", "a send was blocked for good (sent %d, read %d, window %d) but the RPC ended with OK", sent, delivered, sc.Window)
				}
			default:
				if blocked {
					x.Violate("C08/blocked-send-not-timed-out", "subscriber stalled for good after %d message(s); %d were handed to Send with a window of %d, so a send has been blocked for more than the %v timeout, yet the RPC is still open\n%s", delivered, sent, sc.Window, time.Duration(sc.TimeoutNs), describe(sr))
				}
			}
		}
		// (3)/(5) backlog and duplicate accounting for readers that came back
		if sr.sub.Mode == "stream" && sr.sub.StallNs >= 0 && !sr.ended && sr.cancelled == 0 {
			pats, ok := subPatterns(sr.sub)
			if !ok {
				continue
			}
			syncStamp := int64(0)
			for _, r := range sr.resps {
				if r.r.GetSyncResponse() {
					syncStamp = r.stamp
				}
			}
			if syncStamp == 0 {
				continue
			}
			type acc struct{ must, may, got, walk int64 }
			per := map[string]*acc{}
			get := func(k string) *acc {
				if per[k] == nil {
					per[k] = &acc{}
				}
				return per[k]
			}
			for _, f := range w.feed {
				tg, es := cachemodel.FeedEntries(f.n)
				if sr.sub.Target != "*" && sr.sub.Target != tg || !w.allowed(sr, tg) {
					continue
				}
				// The server matches a notification on the full path of each
				// of its updates (for an atomic container: the inner paths).
				offered := false
				for _, u := range f.n.Update {
					if compat(pats, gen.LeafKey(f.n.Prefix, u.Path)) {
						offered = true
					}
				}
				for _, e := range es {
					if e.Kind != "upd" || !offered {
						continue
					}
					a := get(tg + "\x00" + e.Key)
					if f.end > sr.inv {
						a.may++
					}
					if f.stamp > syncStamp {
						a.must++
					}
				}
			}
			for _, r := range sr.resps {
				n := r.r.GetUpdate()
				if n == nil {
					continue
				}
				tg, es := cachemodel.FeedEntries(n)
				for i, e := range es {
					if e.Kind != "upd" {
						continue
					}
					a := get(tg + "\x00" + e.Key)
					a.got++
					if i == 0 && len(n.Update) > 0 {
						a.got += int64(n.Update[0].Duplicates)
					}
					a.walk = 0
					for _, p := range pats {
						if gen.Match(p, gen.Unkey(e.Key)) != gen.No {
							a.walk++ // the initial walk offers a leaf once per subscription path that selects it
						}
					}
				}
			}
			if !sc.NoDup {
				for k, a := range per {
					x.Oblige(1)
					if a.got < a.must || a.got > a.may+a.walk {
						x.Violate("C08/duplicate-accounting", "leaf %s: deliveries plus duplicate counts = %d, but the leaf was offered to this subscriber between %d and %d times (feed updates after the sync .. after the request, plus the initial walk)\n%s  writers:\n%s", strings.Replace(k, "\x00", ":", 1), a.got, a.must, a.may+a.walk, describe(sr), w.history())
						if a.got > a.may+a.walk && a.walk >= 2 {
							// more deliveries than notifications, to a subscriber several of
							// whose paths select the leaf: some notification was offered to
							// it once per matching path (the at-most-once clause of C06)
							x.Violate("C06/notification-offered-once-per-matching-path", "leaf %s is selected by %d paths of this subscription; deliveries plus duplicate counts = %d although at most %d notifications (plus the walk) concerned it\n%s  writers:\n%s", strings.Replace(k, "\x00", ":", 1), a.walk, a.got, a.may+a.walk, describe(sr), w.history())
						}
						break
					}
				}
			}
		}
	}
}

// judgeEnd runs after every RPC context was cancelled.
func (w *world) judgeEnd(x *common.Exec) {
	for _, sr := range w.subs {
		if sr.st == nil {
			continue
		}
		x.Oblige(1)
		select {
		case <-sr.st.Done():
		default:
			x.Violate("C04/handler-did-not-return", "Subscribe did not return after its context was cancelled\n%s", describe(sr))
		}
	}
	// C14: a single-target stream whose target was removed ends with OK after
	// delivering the whole-target delete.
	for _, sr := range w.subs {
		if sr.sub.Mode != "stream" || sr.sub.Target == "*" || !sr.started || sr.sub.StallNs != 0 || sr.sub.Hostile != "" || sr.cancelled != 0 {
			continue
		}
		if !w.allowed(sr, sr.sub.Target) || w.badUser(sr) {
			continue
		}
		if _, ok := subPatterns(sr.sub); !ok {
			continue
		}
		// was the target removed after the subscription was certainly registered (sync delivered)?
		syncStamp := int64(0)
		for _, r := range sr.resps {
			if r.r.GetSyncResponse() {
				syncStamp = r.stamp
			}
		}
		if syncStamp == 0 {
			continue
		}
		removedAfter := false
		for i, tg := range w.sc.Targets {
			if tg != sr.sub.Target {
				continue
			}
			for _, r := range w.w[i] {
				if r.op.K == "remove" && r.inv > syncStamp {
					removedAfter = true
				}
			}
		}
		if !removedAfter {
			continue
		}
		x.Oblige(1)
		gotDelete := false
		for _, r := range sr.resps {
			if n := r.r.GetUpdate(); n != nil && len(n.Delete) == 1 && n.GetPrefix().GetOrigin() == "" {
				if p := append(gen.Index(n.Prefix), gen.Index(n.Delete[0])...); len(p) == 1 && p[0] == "*" {
					gotDelete = true
				}
			}
		}
		code := codes.OK
		if sr.recvErr != nil && sr.recvErr != io.EOF {
			code = status.Code(sr.recvErr)
		}
		if !gotDelete || !sr.ended || code != codes.OK {
			x.Violate("C14/single-target-stream-not-ended", "target %s was removed after the subscription was in sync: whole-target delete delivered=%v, stream ended by itself=%v, code=%v\n%s  writers:\n%s", sr.sub.Target, gotDelete, sr.ended, code, describe(sr), w.history())
		}
	}
	// C06 (server level): no registration survives its RPC.
	if n, ok := registeredClients(w.srv); ok {
		x.Oblige(1)
		if n != 0 {
			x.Violate("C06/registration-leaked", "%d client registration(s) remain in the matcher after every Subscribe RPC has returned\nsubscriptions: %s", n, w.subsSummary())
		}
	} else {
		x.Probe("registration-accessor-unavailable")
	}
}

func (w *world) subsSummary() string {
	var sb strings.Builder
	for _, sr := range w.subs {
		pats, _ := subPatterns(sr.sub)
		fmt.Fprintf(&sb, "{%s %s", sr.sub.Mode, sr.sub.Target)
		for _, p := range pats {
			sb.WriteString(" " + gen.Show(gen.Key(p)))
		}
		sb.WriteString("} ")
	}
	return sb.String()
}

// registeredClients counts the client registrations in the server's matcher
// by reading its (unexported) trie through reflection. ok=false when the
// layout is not the expected one (the clause is then skipped, not failed).
func registeredClients(srv *subscribe.Server) (n int, ok bool) {
	defer func() {
		if recover() != nil {
			n, ok = 0, false
		}
	}()
	sv := reflect.ValueOf(srv).Elem()
	mf := sv.FieldByName("m")
	if !mf.IsValid() || mf.IsNil() {
		return 0, false
	}
	m := reflect.NewAt(mf.Type(), unsafe.Pointer(mf.UnsafeAddr())).Elem().Elem() // match.Match
	tf := m.FieldByName("tree")
	if !tf.IsValid() {
		return 0, false
	}
	var walk func(b reflect.Value) int
	walk = func(b reflect.Value) int {
		if b.Kind() == reflect.Ptr {
			if b.IsNil() {
				return 0
			}
			b = b.Elem()
		}
		c := 0
		cl := b.FieldByName("clients")
		ch := b.FieldByName("children")
		if !cl.IsValid() || !ch.IsValid() {
			panic("layout")
		}
		c += cl.Len()
		it := ch.MapRange()
		for it.Next() {
			c += walk(it.Value())
		}
		return c
	}
	return walk(tf), true
}
