//go:build go1.25

// Package matchh is the harness for the streaming filter (C06): match.Match
// under concurrent AddQuery / remove / Update / UpdateOnce, the exhaustive
// query x update-path compatibility table, and the relation to ctree.Query.
package matchh

import (
	"encoding/json"
	"fmt"
	"hash/fnv"
	"strings"

	"github.com/openconfig/gnmi/ctree"
	"github.com/openconfig/gnmi/match"
	"github.com/openconfig/gnmi/zzverif/harness/common"
	"github.com/openconfig/gnmi/zzverif/simrt"
)

// Op: addq (client C registers query P into handle slot H), rm (handle H of
// client C), upd (Update with path P), once (UpdateOnce over paths PS sharing
// one updated set, as subscribe.UpdateNotification does).
type Op struct {
	K  string     `json:"k"`
	C  int        `json:"c,omitempty"`
	H  int        `json:"h,omitempty"`
	P  []string   `json:"p,omitempty"`
	PS [][]string `json:"ps,omitempty"`
}

type Scenario struct {
	Mode  string     `json:"mode"` // conc | pairs | tree
	Tasks [][]Op     `json:"tasks,omitempty"`
	Chunk int        `json:"chunk,omitempty"`
	Tree  [][]string `json:"tree,omitempty"`
	Qs    [][]string `json:"qs,omitempty"`
}

type H struct{}

func (H) Name() string { return "match" }

func (H) Decode(b []byte) (any, error) {
	s := &Scenario{}
	return s, json.Unmarshal(b, s)
}

var alpha = []string{"a", "b", "*"}

// allPaths enumerates every path of length 0..4 over alpha (121 paths).
func allPaths() [][]string {
	out := [][]string{{}}
	level := [][]string{{}}
	for l := 1; l <= 4; l++ {
		var next [][]string
		for _, p := range level {
			for _, e := range alpha {
				np := append(append([]string(nil), p...), e)
				next = append(next, np)
			}
		}
		out = append(out, next...)
		level = next
	}
	return out
}

const pairChunk = 200

// NumChunks is the number of chunks the finite pair space is divided into.
func NumChunks() int {
	n := len(allPaths())
	return (n*n + pairChunk - 1) / pairChunk
}

func genPath(rng *simrt.Rand, glob float64, maxLen int) []string {
	n := rng.Pick(1, 4, 6, 4, 2, 1)
	if n > maxLen {
		n = maxLen
	}
	p := make([]string, n)
	for i := range p {
		if rng.Chance(glob) {
			p[i] = "*"
		} else {
			p[i] = []string{"a", "b", "c"}[rng.Intn(3)]
		}
	}
	return p
}

func (H) Generate(rng *simrt.Rand, prop, tier string) (any, simrt.Config) {
	cfg := simrt.RandomConfig(rng)
	switch rng.Pick(6, 2, 2) {
	case 1:
		return &Scenario{Mode: "pairs", Chunk: rng.Intn(NumChunks())}, cfg
	case 2:
		sc := &Scenario{Mode: "tree"}
		for i := 2 + rng.Intn(8); i > 0; i-- {
			sc.Tree = append(sc.Tree, genPath(rng, 0, 4))
		}
		for i := 2 + rng.Intn(6); i > 0; i-- {
			sc.Qs = append(sc.Qs, genPath(rng, 0.35, 5))
		}
		return sc, cfg
	}
	sc := &Scenario{Mode: "conc"}
	nc := 1 + rng.Intn(3)
	for c := 0; c < nc; c++ {
		var ops []Op
		used := map[string]bool{}
		live := []int{}
		h := 0
		for i := 2 + rng.Intn(8); i > 0; i-- {
			if len(live) > 0 && rng.Chance(0.4) {
				k := rng.Intn(len(live))
				ops = append(ops, Op{K: "rm", C: c, H: live[k]})
				if rng.Chance(0.15) {
					ops = append(ops, Op{K: "rm", C: c, H: live[k]}) // idempotent
				}
				live = append(live[:k], live[k+1:]...)
				continue
			}
			q := genPath(rng, 0.3, 5)
			if used[strings.Join(q, "/")] {
				continue
			}
			used[strings.Join(q, "/")] = true
			ops = append(ops, Op{K: "addq", C: c, H: h, P: q})
			live = append(live, h)
			h++
		}
		sc.Tasks = append(sc.Tasks, ops)
	}
	for u := 1 + rng.Intn(3); u > 0; u-- {
		var ops []Op
		for i := 1 + rng.Intn(8); i > 0; i-- {
			if rng.Chance(0.5) {
				ops = append(ops, Op{K: "upd", P: genPath(rng, 0.15, 5)})
			} else {
				var ps [][]string
				for k := 1 + rng.Intn(4); k > 0; k-- {
					ps = append(ps, genPath(rng, 0.15, 5))
				}
				ops = append(ops, Op{K: "once", PS: ps})
			}
		}
		sc.Tasks = append(sc.Tasks, ops)
	}
	return sc, cfg
}

func (H) Shrinks(s any) []any {
	sc := s.(*Scenario)
	var out []any
	if sc.Mode != "conc" {
		if sc.Mode == "tree" {
			for i := range sc.Tree {
				c := *sc
				c.Tree = append(append([][]string(nil), sc.Tree[:i]...), sc.Tree[i+1:]...)
				out = append(out, &c)
			}
			for i := range sc.Qs {
				c := *sc
				c.Qs = append(append([][]string(nil), sc.Qs[:i]...), sc.Qs[i+1:]...)
				out = append(out, &c)
			}
		}
		return out
	}
	clone := func() *Scenario {
		c := &Scenario{Mode: sc.Mode}
		for _, t := range sc.Tasks {
			c.Tasks = append(c.Tasks, append([]Op(nil), t...))
		}
		return c
	}
	if len(sc.Tasks) > 1 {
		for i := range sc.Tasks {
			c := clone()
			c.Tasks = append(c.Tasks[:i], c.Tasks[i+1:]...)
			out = append(out, c)
		}
	}
	for i, t := range sc.Tasks {
		for j := range t {
			c := clone()
			c.Tasks[i] = append(c.Tasks[i][:j], c.Tasks[i][j+1:]...)
			out = append(out, c)
		}
	}
	for i, t := range sc.Tasks {
		for j, op := range t {
			if op.K == "once" && len(op.PS) > 1 {
				for k := range op.PS {
					c := clone()
					c.Tasks[i][j].PS = append(append([][]string(nil), op.PS[:k]...), op.PS[k+1:]...)
					out = append(out, c)
				}
			}
		}
	}
	return out
}

// compat is the statement: the paths agree on every element they both have;
// a wildcard on either side agrees with anything.
func compat(q, p []string) bool {
	for i := 0; i < len(q) && i < len(p); i++ {
		if q[i] != "*" && p[i] != "*" && q[i] != p[i] {
			return false
		}
	}
	return true
}

type call struct {
	client int
	note   int
	stamp  int64
}

type recClient struct {
	id    int
	calls *[]call
}

func (c *recClient) Update(n interface{}) {
	*c.calls = append(*c.calls, call{client: c.id, note: n.(int), stamp: simrt.Stamp()})
}

func (h H) Execute(x *common.Exec, s any) {
	sc := s.(*Scenario)
	switch sc.Mode {
	case "pairs":
		h.execPairs(x, sc)
	case "tree":
		h.execTree(x, sc)
	default:
		h.execConc(x, sc)
	}
}

func (H) execPairs(x *common.Exec, sc *Scenario) {
	ps := allPaths()
	n := len(ps)
	done := false
	x.R.Go("pairs", func() {
		for k := sc.Chunk * pairChunk; k < (sc.Chunk+1)*pairChunk && k < n*n; k++ {
			q, p := ps[k/n], ps[k%n]
			m := match.New()
			var calls []call
			c := &recClient{id: 0, calls: &calls}
			other := &recClient{id: 1, calls: &calls}
			rm := m.AddQuery(q, c)
			m.AddQuery(q, other)
			m.Update(1, p)
			got := 0
			for _, cl := range calls {
				if cl.client == 0 {
					got++
				}
			}
			x.Oblige(1)
			if want := compat(q, p); (got > 0) != want || got > 1 {
				x.Violate("C06/compat-table", "query %v, update path %v: client invoked %d time(s), compatible=%v", q, p, got, want)
			}
			// after removal: silent, the other client with the same query unaffected.
			rm()
			calls = calls[:0]
			m.Update(2, p)
			g0, g1 := 0, 0
			for _, cl := range calls {
				if cl.client == 0 {
					g0++
				} else {
					g1++
				}
			}
			x.Oblige(1)
			if g0 != 0 || (g1 > 0) != compat(q, p) {
				x.Violate("C06/remove", "query %v, update path %v after remove: removed client invoked %d, other client %d (compatible=%v)", q, p, g0, g1, compat(q, p))
			}
		}
		done = true
	})
	x.R.Schedule(false, nil)
	x.R.AcquireEnd()
	if !done {
		x.Violate("C06/stuck", "pair enumeration did not finish: %s", x.R.Summary())
	}
	x.Probe(fmt.Sprintf("pairs-chunk-%03d", sc.Chunk))
	x.NonTrivial = true
	x.StateHash = uint64(sc.Chunk)
}

// execTree: every leaf ctree.Query(q) returns must be streamed to a
// subscriber of q.
func (H) execTree(x *common.Exec, sc *Scenario) {
	done := false
	x.R.Go("tree", func() {
		t := &ctree.Tree{}
		for i, p := range sc.Tree {
			t.Add(p, i)
		}
		for _, q := range sc.Qs {
			var leaves [][]string
			t.Query(q, func(p []string, _ *ctree.Leaf, _ interface{}) error {
				leaves = append(leaves, append([]string(nil), p...))
				return nil
			})
			for _, l := range leaves {
				m := match.New()
				var calls []call
				m.AddQuery(q, &recClient{id: 0, calls: &calls})
				m.Update(1, l)
				x.Oblige(1)
				if len(calls) == 0 {
					x.Violate("C06/query-leaf-not-streamed", "Query(%v) returns leaf %v but an update to that leaf is not offered to a subscriber of %v", q, l, q)
				}
				if !compat(q, l) {
					x.Violate("C06/query-leaf-incompatible", "Query(%v) returns leaf %v which disagrees with the query on a common element", q, l)
				}
			}
		}
		done = true
	})
	x.R.Schedule(false, nil)
	x.R.AcquireEnd()
	if !done {
		x.Violate("C06/stuck", "tree scenario did not finish")
	}
	x.NonTrivial = len(sc.Tree) > 1
	h := fnv.New64a()
	fmt.Fprint(h, sc.Tree, sc.Qs)
	x.StateHash = h.Sum64()
}

type reg struct {
	client         int
	q              []string
	addInv, addRet int64
	rmInv, rmRet   int64 // first remove; 0 = never
	handle         int
}

type upd struct {
	id       int
	once     bool
	paths    [][]string
	inv, ret int64
}

func (H) execConc(x *common.Exec, sc *Scenario) {
	m := match.New()
	nt := len(sc.Tasks)
	regs := make([][]*reg, nt)
	upds := make([][]*upd, nt)
	callsBy := make([][]call, nt) // calls recorded by the updater task that made them
	// One client object per client id (UpdateOnce de-duplicates by object).
	objs := map[int]*dispatch{}
	for _, t := range sc.Tasks {
		for _, op := range t {
			if op.K == "addq" && objs[op.C] == nil {
				objs[op.C] = &dispatch{id: op.C, sink: &callsBy}
			}
		}
	}
	for ti := range sc.Tasks {
		ti := ti
		x.R.Go(fmt.Sprintf("t%d", ti), func() {
			removes := map[int]func(){}
			byHandle := map[int]*reg{}
			nextNote := 0
			for _, op := range sc.Tasks[ti] {
				switch op.K {
				case "addq":
					// Every task records into the calls slice of whichever
					// updater invokes it: calls happen on the updater's goroutine.
					r := &reg{client: op.C, q: op.P, handle: op.H, addInv: simrt.Stamp()}
					removes[op.H] = m.AddQuery(op.P, objs[op.C])
					r.addRet = simrt.Stamp()
					byHandle[op.H] = r
					regs[ti] = append(regs[ti], r)
				case "rm":
					if f := removes[op.H]; f != nil {
						r := byHandle[op.H]
						inv := simrt.Stamp()
						f()
						ret := simrt.Stamp()
						if r.rmInv == 0 {
							r.rmInv, r.rmRet = inv, ret
						}
					}
				case "upd", "once":
					nextNote++
					u := &upd{id: nextNote*100 + ti, once: op.K == "once", inv: simrt.Stamp()}
					if op.K == "upd" {
						u.paths = [][]string{op.P}
						m.Update(u.id, op.P)
					} else {
						u.paths = op.PS
						updated := map[match.Client]struct{}{}
						for _, p := range op.PS {
							m.UpdateOnce(u.id, p, updated)
						}
					}
					u.ret = simrt.Stamp()
					upds[ti] = append(upds[ti], u)
				}
			}
		})
	}
	out := x.R.Schedule(false, nil)
	x.R.AcquireEnd()
	if out == simrt.StepLimit {
		x.Inconclusive = "step-limit"
		return
	}
	if out != simrt.AllDone {
		x.Violate("C06/deadlock", "match operations blocked: %s", x.R.Summary())
		return
	}
	var allRegs []*reg
	for _, rs := range regs {
		allRegs = append(allRegs, rs...)
	}
	ncalls := map[[2]int]int{} // (client, note) -> invocations
	for _, cs := range callsBy {
		for _, c := range cs {
			ncalls[[2]int{c.client, c.note}]++
		}
	}
	clients := map[int]bool{}
	for _, r := range allRegs {
		clients[r.client] = true
	}
	// Every single invocation happens while a compatible registration of that
	// client exists: not before its AddQuery was invoked and not after its
	// remove function has returned.
	updByID := map[int]*upd{}
	for _, us := range upds {
		for _, u := range us {
			updByID[u.id] = u
		}
	}
	for _, cs := range callsBy {
		for _, c := range cs {
			u := updByID[c.note]
			if u == nil {
				continue // the updater has not recorded the call yet (cannot happen after AllDone)
			}
			x.Oblige(1)
			covered := false
			var why []string
			for _, r := range allRegs {
				if r.client != c.client {
					continue
				}
				ok := false
				for _, p := range u.paths {
					if compat(r.q, p) {
						ok = true
					}
				}
				if !ok {
					continue
				}
				if r.addInv < c.stamp && (r.rmRet == 0 || c.stamp < r.rmRet) {
					covered = true
				}
				why = append(why, fmt.Sprintf("query %v added at [%d,%d] removed at [%d,%d]", r.q, r.addInv, r.addRet, r.rmInv, r.rmRet))
			}
			if !covered {
				x.Violate("C06/offered-outside-registration", "client %d was offered notification %d over %v at %d, when none of its compatible registrations existed: %v", c.client, c.note, u.paths, c.stamp, why)
			}
		}
	}
	nu := 0
	for _, us := range upds {
		for _, u := range us {
			nu++
			for c := range clients {
				must, may := 0, 0
				for _, r := range allRegs {
					if r.client != c {
						continue
					}
					ok := false
					for _, p := range u.paths {
						if compat(r.q, p) {
							ok = true
						}
					}
					if !ok {
						continue
					}
					if r.addRet < u.inv && (r.rmInv == 0 || r.rmInv > u.ret) {
						must++
					}
					if r.addInv < u.ret && (r.rmRet == 0 || r.rmRet > u.inv) {
						may++
					}
				}
				got := ncalls[[2]int{c, u.id}]
				x.Oblige(1)
				switch {
				case u.once && got > 1:
					x.Violate("C06/once-delivered-twice", "UpdateOnce notification %d over paths %v invoked client %d %d times", u.id, u.paths, c, got)
				case u.once && must > 0 && got == 0:
					x.Violate("C06/missed", "UpdateOnce notification %d over %v did not invoke client %d although a compatible query was registered throughout", u.id, u.paths, c)
				case !u.once && got < must:
					x.Violate("C06/missed", "Update %d path %v invoked client %d %d time(s), but %d compatible queries were registered throughout", u.id, u.paths, c, got, must)
				case got > 0 && may == 0:
					x.Violate("C06/invoked-without-registration", "notification %d over %v invoked client %d %d time(s) although no compatible query of it was registered at any time during the call (removed before or added after)", u.id, u.paths, c, got)
				case !u.once && got > may:
					x.Violate("C06/too-many", "Update %d path %v invoked client %d %d times with at most %d compatible registrations", u.id, u.paths, c, got, may)
				}
			}
		}
	}
	x.NonTrivial = len(allRegs) > 0 && nu > 0 && nt >= 2
	for _, us := range upds {
		for _, u := range us {
			for _, r := range allRegs {
				if r.addInv < u.ret && u.inv < r.addRet {
					x.Fault("update-overlaps-registration")
				}
				if r.rmInv != 0 && r.rmInv < u.ret && u.inv < r.rmRet {
					x.Fault("update-overlaps-removal")
				}
			}
		}
	}
	h := fnv.New64a()
	fmt.Fprint(h, ncalls)
	x.StateHash = uint64(len(ncalls))<<32 ^ h.Sum64()
}

// dispatch records a call into the slot of the task that is running (the
// updater), found through the notification id (id%100 = updater task).
type dispatch struct {
	id   int
	sink *[][]call
}

func (d *dispatch) Update(n interface{}) {
	note := n.(int)
	ti := note % 100
	// a real client does work here (queue insertion under a lock): a scheduling point
	simrt.Yield("client-update")
	(*d.sink)[ti] = append((*d.sink)[ti], call{client: d.id, note: note, stamp: simrt.Stamp()})
}
