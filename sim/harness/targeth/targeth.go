//go:build go1.25

// Package targeth is the harness for target configuration loads (C17).
package targeth

import (
	"encoding/json"
	"fmt"
	"hash/fnv"
	"sort"
	"strings"
	"time"

	"github.com/anishathalye/porcupine"
	gpb "github.com/openconfig/gnmi/proto/gnmi"
	pb "github.com/openconfig/gnmi/proto/target"
	"github.com/openconfig/gnmi/target"
	"github.com/openconfig/gnmi/zzverif/harness/common"
	"github.com/openconfig/gnmi/zzverif/simrt"
	"google.golang.org/protobuf/proto"
)

// TSpec describes one target entry.
type TSpec struct {
	Addrs   []string `json:"addrs"`
	Request string   `json:"request"`
	User    string   `json:"user,omitempty"`
	Meta    string   `json:"meta,omitempty"`
	Dialer  string   `json:"dialer,omitempty"`
	Nil     bool     `json:"nil,omitempty"`
}

// CSpec describes a configuration.
type CSpec struct {
	Revision int64             `json:"revision"`
	Requests map[string]int    `json:"requests"` // name -> content variant
	Targets  map[string]TSpec  `json:"targets"`
	Meta     map[string]string `json:"meta,omitempty"`
	NilCfg   bool              `json:"nil_cfg,omitempty"`
}

// Scenario: per loader task a list of configurations to load.
type Scenario struct {
	Base  *CSpec    `json:"base,omitempty"` // NewConfigWithBase
	Tasks [][]CSpec `json:"tasks"`
}

type H struct{}

func (H) Name() string { return "target" }

func (H) Decode(b []byte) (any, error) {
	s := &Scenario{}
	return s, json.Unmarshal(b, s)
}

func build(c *CSpec) *pb.Configuration {
	if c == nil || c.NilCfg {
		return nil
	}
	out := &pb.Configuration{Revision: c.Revision, Request: map[string]*gpb.SubscribeRequest{}, Target: map[string]*pb.Target{}, Meta: c.Meta}
	for n, v := range c.Requests {
		out.Request[n] = &gpb.SubscribeRequest{Request: &gpb.SubscribeRequest_Subscribe{Subscribe: &gpb.SubscriptionList{
			Subscription: []*gpb.Subscription{{Path: &gpb.Path{Elem: []*gpb.PathElem{{Name: fmt.Sprintf("p%d", v)}}}}}}}}
	}
	for n, t := range c.Targets {
		if t.Nil {
			out.Target[n] = nil
			continue
		}
		pt := &pb.Target{Addresses: t.Addrs, Request: t.Request, Dialer: t.Dialer}
		if t.User != "" {
			pt.Credentials = &pb.Credentials{Username: t.User, Password: "pw"}
		}
		if t.Meta != "" {
			pt.Meta = map[string]string{"m": t.Meta}
		}
		out.Target[n] = pt
	}
	return out
}

func cloneSpec(c *CSpec) *CSpec {
	b, _ := json.Marshal(c)
	out := &CSpec{}
	json.Unmarshal(b, out)
	if out.Requests == nil {
		out.Requests = map[string]int{}
	}
	if out.Targets == nil {
		out.Targets = map[string]TSpec{}
	}
	return out
}

var tnames = []string{"A", "B", "C", "D"}
var rnames = []string{"r1", "r2", "r3"}

func mutate(rng *simrt.Rand, cur *CSpec) *CSpec {
	c := cloneSpec(cur)
	switch rng.Pick(6, 2, 2) {
	case 0:
		c.Revision += 1 + int64(rng.Intn(3))
	case 1: // equal
	case 2:
		c.Revision -= int64(rng.Intn(3))
	}
	for k := 1 + rng.Intn(3); k > 0; k-- {
		switch rng.Pick(4, 3, 4, 3, 2, 2, 1, 3) {
		case 0: // add / replace a target
			n := tnames[rng.Intn(len(tnames))]
			r := rnames[rng.Intn(len(rnames))]
			if _, ok := c.Requests[r]; !ok {
				c.Requests[r] = rng.Intn(3)
			}
			c.Targets[n] = TSpec{Addrs: []string{fmt.Sprintf("h%d:1", rng.Intn(3))}, Request: r}
		case 1: // remove a target
			for n := range sortedT(c.Targets) {
				_ = n
			}
			if ns := sortedT(c.Targets); len(ns) > 0 {
				delete(c.Targets, ns[rng.Intn(len(ns))])
			}
		case 2: // edit a target
			if ns := sortedT(c.Targets); len(ns) > 0 {
				n := ns[rng.Intn(len(ns))]
				t := c.Targets[n]
				switch rng.Intn(4) {
				case 0:
					t.Addrs = []string{fmt.Sprintf("h%d:2", rng.Intn(3))}
				case 1:
					t.User = []string{"", "u1", "u2"}[rng.Intn(3)]
				case 2:
					t.Meta = []string{"", "x", "y"}[rng.Intn(3)]
				case 3:
					t.Dialer = []string{"", "tunnel"}[rng.Intn(2)]
				}
				c.Targets[n] = t
			}
		case 3: // edit a request
			if ns := sortedR(c.Requests); len(ns) > 0 {
				n := ns[rng.Intn(len(ns))]
				c.Requests[n] = rng.Intn(4)
			}
		case 4: // rename a request and re-point its targets
			if ns := sortedR(c.Requests); len(ns) > 0 {
				old := ns[rng.Intn(len(ns))]
				nn := rnames[rng.Intn(len(rnames))]
				if _, ok := c.Requests[nn]; !ok {
					c.Requests[nn] = c.Requests[old]
					delete(c.Requests, old)
					for tn, t := range c.Targets {
						if t.Request == old {
							t.Request = nn
							c.Targets[tn] = t
						}
					}
				}
			}
		case 5: // re-point a target to another existing request
			if ns, rs := sortedT(c.Targets), sortedR(c.Requests); len(ns) > 0 && len(rs) > 0 {
				n := ns[rng.Intn(len(ns))]
				t := c.Targets[n]
				t.Request = rs[rng.Intn(len(rs))]
				c.Targets[n] = t
			}
		case 6: // unused request added / removed
			r := rnames[rng.Intn(len(rnames))]
			used := false
			for _, t := range c.Targets {
				if t.Request == r {
					used = true
				}
			}
			if !used {
				if _, ok := c.Requests[r]; ok {
					delete(c.Requests, r)
				} else {
					c.Requests[r] = rng.Intn(3)
				}
			}
		case 7: // invalid variants
			switch rng.Intn(5) {
			case 0:
				if ns := sortedT(c.Targets); len(ns) > 0 {
					t := c.Targets[ns[0]]
					t.Addrs = nil
					c.Targets[ns[0]] = t
				}
			case 1:
				if ns := sortedT(c.Targets); len(ns) > 0 {
					t := c.Targets[ns[0]]
					t.Request = ""
					c.Targets[ns[0]] = t
				}
			case 2:
				if ns := sortedT(c.Targets); len(ns) > 0 {
					t := c.Targets[ns[0]]
					t.Request = "nosuch"
					c.Targets[ns[0]] = t
				}
			case 3:
				c.Targets[""] = TSpec{Addrs: []string{"h:1"}, Request: "r1"}
			case 4:
				c.Targets["N"] = TSpec{Nil: true}
			}
		}
	}
	return c
}

func sortedT(m map[string]TSpec) []string {
	var ks []string
	for k := range m {
		ks = append(ks, k)
	}
	sort.Strings(ks)
	return ks
}

func sortedR(m map[string]int) []string {
	var ks []string
	for k := range m {
		ks = append(ks, k)
	}
	sort.Strings(ks)
	return ks
}

func (H) Generate(rng *simrt.Rand, prop, tier string) (any, simrt.Config) {
	cfg := simrt.RandomConfig(rng)
	sc := &Scenario{}
	cur := &CSpec{Revision: int64(rng.Intn(3)), Requests: map[string]int{"r1": 0}, Targets: map[string]TSpec{}}
	if rng.Chance(0.3) {
		cur = mutate(rng, cur)
		if target.Validate(build(cur)) == nil {
			sc.Base = cur
		} else {
			cur = &CSpec{Revision: 0, Requests: map[string]int{"r1": 0}, Targets: map[string]TSpec{}}
		}
	}
	nt := 1 + rng.Pick(6, 3, 1)
	for i := 0; i < nt; i++ {
		var loads []CSpec
		for k := 1 + rng.Intn(8); k > 0; k-- {
			n := mutate(rng, cur)
			if rng.Chance(0.03) {
				n.NilCfg = true
			}
			loads = append(loads, *n)
			// follow the valid ones so that later mutations are relative to a plausible current state
			if !n.NilCfg && target.Validate(build(n)) == nil && n.Revision > cur.Revision {
				cur = n
			}
		}
		sc.Tasks = append(sc.Tasks, loads)
	}
	return sc, cfg
}

func (H) Shrinks(s any) []any {
	sc := s.(*Scenario)
	var out []any
	clone := func() *Scenario {
		c := &Scenario{Base: sc.Base}
		for _, t := range sc.Tasks {
			c.Tasks = append(c.Tasks, append([]CSpec(nil), t...))
		}
		return c
	}
	if sc.Base != nil {
		c := clone()
		c.Base = nil
		out = append(out, c)
	}
	if len(sc.Tasks) > 1 {
		for i := range sc.Tasks {
			c := clone()
			c.Tasks = append(c.Tasks[:i], c.Tasks[i+1:]...)
			out = append(out, c)
		}
	}
	for i, t := range sc.Tasks {
		for j := range t {
			c := clone()
			c.Tasks[i] = append(c.Tasks[i][:j], c.Tasks[i][j+1:]...)
			out = append(out, c)
		}
	}
	for i, t := range sc.Tasks {
		for j, l := range t {
			for _, n := range sortedT(l.Targets) {
				c := clone()
				nl := cloneSpec(&l)
				delete(nl.Targets, n)
				c.Tasks[i][j] = *nl
				out = append(out, c)
			}
		}
	}
	return out
}

type call struct {
	stamp int64
	kind  string
	name  string
	tgt   string // canonical target settings
	req   string // canonical request
}

type load struct {
	task     int
	spec     CSpec
	inv, ret int64
	ok       bool
	errText  string
	calls    []call
	before   string // Current() before (sequential scenarios only)
	after    string
}

func canon(m proto.Message) string {
	if m == nil || !m.ProtoReflect().IsValid() {
		return "<nil>"
	}
	b, _ := proto.MarshalOptions{Deterministic: true}.Marshal(m)
	return fmt.Sprintf("%x", b)
}

// view is "name -> (target settings, request)" of a configuration.
func view(c *pb.Configuration) map[string][2]string {
	out := map[string][2]string{}
	for n, t := range c.GetTarget() {
		out[n] = [2]string{canon(t), canon(c.GetRequest()[t.GetRequest()])}
	}
	return out
}

func viewString(v map[string][2]string) string {
	var ks []string
	for k := range v {
		ks = append(ks, k)
	}
	sort.Strings(ks)
	var sb strings.Builder
	for _, k := range ks {
		fmt.Fprintf(&sb, "%s{t=%s r=%s} ", k, short(v[k][0]), short(v[k][1]))
	}
	return sb.String()
}

func short(s string) string {
	h := fnv.New32a()
	h.Write([]byte(s))
	return fmt.Sprintf("%08x", h.Sum32())
}

func (H) Execute(x *common.Exec, s any) {
	sc := s.(*Scenario)
	nt := len(sc.Tasks)
	calls := make([][]call, nt)
	cur := make([]int, nt) // index of the task currently inside a handler (set by the task itself)
	_ = cur
	mk := func(kind string) func(target.Update) {
		return func(u target.Update) {
			simrt.Yield("handler") // a real handler does work (manager.Add takes locks): a scheduling point
			id := simrt.Current().ID
			calls[id] = append(calls[id], call{stamp: simrt.Stamp(), kind: kind, name: u.Name, tgt: canon(u.Target), req: canon(u.Request)})
		}
	}
	h := target.Handler{Add: mk("add"), Update: mk("update"), Delete: func(n string) {
		simrt.Yield("handler")
		id := simrt.Current().ID
		calls[id] = append(calls[id], call{stamp: simrt.Stamp(), kind: "delete", name: n})
	}}
	var c *target.Config
	if sc.Base != nil {
		var err error
		c, err = target.NewConfigWithBase(h, build(sc.Base))
		if err != nil {
			c = target.NewConfig(h)
			sc = &Scenario{Tasks: sc.Tasks}
		}
	} else {
		c = target.NewConfig(h)
	}
	loads := make([][]load, nt)
	seq := nt == 1
	for i := range sc.Tasks {
		i := i
		x.R.Go(fmt.Sprintf("loader%d", i), func() {
			for _, spec := range sc.Tasks[i] {
				l := load{task: i, spec: spec}
				cfg := build(&spec)
				if seq {
					simrt.Quietly(func() { l.before = viewString(view(c.Current())) + fmt.Sprint(" rev=", c.Current().GetRevision()) })
				}
				from := len(calls[i])
				l.inv = simrt.Stamp()
				err := c.Load(cfg)
				l.ret = simrt.Stamp()
				l.ok = err == nil
				if err != nil {
					l.errText = err.Error()
				}
				l.calls = append([]call(nil), calls[i][from:]...)
				if seq {
					simrt.Quietly(func() { l.after = viewString(view(c.Current())) + fmt.Sprint(" rev=", c.Current().GetRevision()) })
				}
				loads[i] = append(loads[i], l)
			}
		})
	}
	out := x.R.Schedule(false, nil)
	x.R.AcquireEnd()
	if out == simrt.StepLimit {
		x.Inconclusive = "step-limit"
		return
	}
	if out != simrt.AllDone {
		x.Violate("C17/deadlock", "Load blocked: %s", x.R.Summary())
		return
	}
	var final *pb.Configuration
	x.R.Go("final", func() { final = c.Current() })
	x.R.Schedule(true, nil)
	x.R.AcquireEnd()

	var all []load
	for _, ls := range loads {
		all = append(all, ls...)
	}
	x.NonTrivial = len(all) >= 2
	for _, l := range all {
		if !l.ok {
			x.Fault("load-rejected")
		}
		if l.spec.NilCfg {
			x.Fault("nil-configuration")
		}
	}
	if len(sc.Tasks) > 1 {
		x.Fault("concurrent-loaders")
	}
	for _, a := range all {
		for _, b := range all {
			if a.task != b.task && a.inv < b.ret && b.inv < a.ret {
				x.Fault("overlapping-loads")
			}
		}
	}
	// (1) per load: validity / handler silence on rejection / sequential unchanged-ness.
	for _, l := range all {
		x.Oblige(2)
		cfg := build(&l.spec)
		valid := cfg != nil && validate(cfg) == ""
		if !valid && l.ok {
			x.Violate("C17/invalid-config-applied", "Load accepted an invalid configuration (%s): %+v", validate(cfg), l.spec)
		}
		if !l.ok && len(l.calls) > 0 {
			x.Violate("C17/handler-ran-for-rejected-load", "Load returned %q but %d handler call(s) ran", l.errText, len(l.calls))
		}
		if seq && !l.ok && l.before != l.after {
			x.Violate("C17/rejected-load-changed-state", "Load returned %q but Current() changed from %s to %s", l.errText, l.before, l.after)
		}
	}
	// (2) replay of the handler calls in global order; per accepted load with calls: exact diff.
	sort.SliceStable(all, func(i, j int) bool {
		a, b := all[i], all[j]
		ka, kb := a.inv, b.inv
		if len(a.calls) > 0 {
			ka = a.calls[0].stamp
		}
		if len(b.calls) > 0 {
			kb = b.calls[0].stamp
		}
		return ka < kb
	})
	state := map[string][2]string{}
	if sc.Base != nil {
		state = view(build(sc.Base))
	}
	for _, l := range all {
		if len(l.calls) == 0 {
			continue
		}
		x.Oblige(1)
		want := view(build(&l.spec))
		seen := map[string]bool{}
		for _, cl := range l.calls {
			if seen[cl.name] {
				x.Violate("C17/two-calls-for-one-target", "target %q announced twice in one load", cl.name)
			}
			seen[cl.name] = true
			old, had := state[cl.name]
			nw, has := want[cl.name]
			switch cl.kind {
			case "add":
				if had || !has || nw != [2]string{cl.tgt, cl.req} {
					x.Violate("C17/wrong-add", "Add(%q) had=%v has=%v payload matches new config=%v", cl.name, had, has, nw == [2]string{cl.tgt, cl.req})
				}
				state[cl.name] = [2]string{cl.tgt, cl.req}
			case "update":
				if !had || !has || nw != [2]string{cl.tgt, cl.req} {
					x.Violate("C17/wrong-update", "Update(%q) had=%v has=%v payload matches new config=%v", cl.name, had, has, nw == [2]string{cl.tgt, cl.req})
				} else if old == nw {
					x.Violate("C17/call-for-unchanged-target", "Update(%q) although its settings and request are unchanged", cl.name)
				}
				state[cl.name] = [2]string{cl.tgt, cl.req}
			case "delete":
				if !had || has {
					x.Violate("C17/wrong-delete", "Delete(%q) had=%v still-configured=%v", cl.name, had, has)
				}
				delete(state, cl.name)
			}
		}
		if got, w := viewString(state), viewString(want); got != w {
			x.Violate("C17/diff-incomplete", "after the handler calls of an accepted load the replayed set is\n  %s\nbut the loaded configuration is\n  %s\ncalls: %+v", got, w, l.calls)
			return
		}
	}
	// (3) final: replay == Current()
	x.Oblige(1)
	if got, w := viewString(state), viewString(view(final)); got != w {
		x.Violate("C17/replay-vs-current", "replaying every handler call gives\n  %s\nbut Current() is\n  %s", got, w)
	}
	hh := fnv.New64a()
	fmt.Fprint(hh, viewString(state), final.GetRevision())
	x.StateHash = hh.Sum64()
	// (4) accept/reject decisions are linearizable against the revision rule.
	x.Post = append(x.Post, func(x *common.Exec) { checkRevisions(x, sc, all) })
}

func validate(c *pb.Configuration) string {
	for name, t := range c.Target {
		switch {
		case name == "":
			return "empty target name"
		case t == nil:
			return "nil target"
		case len(t.Addresses) == 0:
			return "no address"
		case t.Request == "":
			return "no request"
		}
		if _, ok := c.Request[t.Request]; !ok {
			return "request not defined"
		}
	}
	return ""
}

type revState struct {
	has bool
	rev int64
}

func checkRevisions(x *common.Exec, sc *Scenario, all []load) {
	var ops []porcupine.Operation
	for _, l := range all {
		ops = append(ops, porcupine.Operation{ClientId: l.task, Input: l, Call: l.inv, Output: l.ok, Return: l.ret})
	}
	init := revState{}
	if sc.Base != nil {
		init = revState{has: true, rev: sc.Base.Revision}
	}
	m := porcupine.Model{
		Init: func() interface{} { return init },
		Step: func(state, in, out interface{}) (bool, interface{}) {
			st := state.(revState)
			l := in.(load)
			cfg := build(&l.spec)
			valid := cfg != nil && validate(cfg) == ""
			accept := valid && (!st.has || l.spec.Revision > st.rev)
			if accept != out.(bool) {
				return false, st
			}
			if accept {
				return true, revState{has: true, rev: l.spec.Revision}
			}
			return true, st
		},
	}
	x.Oblige(1)
	switch porcupine.CheckOperationsTimeout(m, ops, 20*time.Second) {
	case porcupine.Illegal:
		var sb strings.Builder
		sort.Slice(all, func(i, j int) bool { return all[i].inv < all[j].inv })
		for _, l := range all {
			fmt.Fprintf(&sb, "  t%d [%d,%d] Load(rev=%d targets=%v nil=%v) -> ok=%v %s\n", l.task, l.inv, l.ret, l.spec.Revision, sortedT(l.spec.Targets), l.spec.NilCfg, l.ok, l.errText)
		}
		x.Violate("C17/revision-rule", "the accept/reject decisions cannot be explained by 'applied iff valid and revision strictly greater than the current one' in any order consistent with real time:\n%s", sb.String())
	case porcupine.Unknown:
		x.Inconclusive = "porcupine-timeout"
	}
}
