//go:build go1.25

// Package fakeh is the harness for the synthetic target (C20): the per-stream
// engine of the fake agent (gnmi.NewClient(cfg).Run) on a simulated stream,
// its recv/send goroutines under the scheduler, EnableDelay sleeps in virtual
// time, POLL triggers from a client task. Two engines built from the same
// configuration run concurrently in every scenario: their emitted sequences
// must be identical whatever the interleaving.
package fakeh

import (
	"context"
	"encoding/json"
	"fmt"
	"hash/fnv"
	"math"
	"strings"
	"sync/atomic"
	"time"

	gpb "github.com/openconfig/gnmi/proto/gnmi"
	fgnmi "github.com/openconfig/gnmi/testing/fake/gnmi"
	fpb "github.com/openconfig/gnmi/testing/fake/proto"
	fqueue "github.com/openconfig/gnmi/testing/fake/queue"
	"github.com/openconfig/gnmi/zzverif/harness/common"
	"github.com/openconfig/gnmi/zzverif/simgrpc"
	"github.com/openconfig/gnmi/zzverif/simrt"
	"github.com/openconfig/gnmi/zzverif/simsync"
	"google.golang.org/grpc"
	"google.golang.org/protobuf/proto"
)

// VSpec is one configured value.
type VSpec struct {
	Kind     string `json:"kind"` // int uint double string stringlist bool delete
	Dist     string `json:"dist"` // none range delta list rlist
	Repeat   int32  `json:"repeat"`
	TS       int64  `json:"ts"`
	DMin     int64  `json:"dmin"`
	DMax     int64  `json:"dmax"`
	Seed     int64  `json:"seed,omitempty"`
	Min, Max int64
	VDMin    int64 `json:"vdmin,omitempty"`
	VDMax    int64 `json:"vdmax,omitempty"`
	Init     int64 `json:"init"`
	NOpts    int   `json:"nopts,omitempty"`
}

type Scenario struct {
	Values      []VSpec `json:"values"`
	Seed        int64   `json:"seed"`
	Delay       bool    `json:"delay"`
	DisableSync bool    `json:"disable_sync,omitempty"`
	DisableEOF  bool    `json:"disable_eof,omitempty"`
	Mode        string  `json:"mode"` // stream once poll
	Polls       int     `json:"polls,omitempty"`
	Cut         int     `json:"cut,omitempty"` // client cancels after this many messages (unbounded repeats)
	Window      int     `json:"window"`
	Target      string  `json:"target,omitempty"`
	// Values2: POLL only - the client's configuration is replaced (SetConfig)
	// before the first poll trigger; every later pass plays this one.
	Values2 []VSpec `json:"values2,omitempty"`
	// Fixed: a fixed-responses configuration instead of value generators: the
	// listed updates are played verbatim (then the sync marker). SharedCfg:
	// both engines are built from one configuration object, the way the fake
	// agent builds a client per Subscribe call from its one configuration.
	// RaceSeed (POLL, >0): the configuration is replaced by one that differs only
	// in its seed. Engine 1 does it between two passes (SetConfig, then the
	// poll trigger), engine 0 right after the trigger, i.e. while the engine
	// rebuilds its generator: that pass must play the old or the new
	// configuration - entirely.
	RaceSeed int64 `json:"race_seed,omitempty"`
	// LateAdd (queue level): the generator (queue.New with delays) is consumed by
	// one task while another task adds one more value - timestamp LateTS, repeat
	// LateRepeat - after LateAtNs of virtual time, i.e. possibly while Next is
	// sleeping out an inter-update delay.
	LateAdd    bool        `json:"late_add,omitempty"`
	LateAtNs   int64       `json:"late_at_ns,omitempty"`
	LateTS     int64       `json:"late_ts,omitempty"`
	LateRepeat int32       `json:"late_repeat,omitempty"`
	Fixed      []FixedResp `json:"fixed,omitempty"`
	SharedCfg  bool        `json:"shared_cfg,omitempty"`
}

// FixedResp is one response of a fixed-responses configuration.
type FixedResp struct {
	TS  int64 `json:"ts"`
	Val int64 `json:"val"`
	Del bool  `json:"del,omitempty"`
}

type H struct{}

func (H) Name() string { return "fake" }

// RaceProperty: C20 does not state race freedom; race reports are recorded as
// observations (probe observation:race:...), not as violations.
func (H) RaceProperty(string) string { return "" }

func (H) Decode(b []byte) (any, error) {
	s := &Scenario{}
	return s, json.Unmarshal(b, s)
}

func (H) Generate(rng *simrt.Rand, prop, tier string) (any, simrt.Config) {
	cfg := simrt.RandomConfig(rng)
	cfg.IdleNs = int64(time.Hour)
	sc := &Scenario{Seed: 1 + int64(rng.Intn(1000)), Delay: rng.Chance(0.4), DisableSync: rng.Chance(0.15), Window: []int{0, 1, 4, 64}[rng.Intn(4)],
		Mode: []string{"stream", "stream", "once", "poll"}[rng.Intn(4)], Target: []string{"", "dev"}[rng.Intn(2)]}
	if sc.Mode == "poll" {
		sc.Polls = rng.Intn(3)
	}
	if rng.Chance(0.2) {
		// fixed-responses configuration
		ts := int64(rng.Intn(50))
		for i := 1 + rng.Intn(6); i > 0; i-- {
			ts += int64(rng.Intn(5))
			sc.Fixed = append(sc.Fixed, FixedResp{TS: ts, Val: int64(rng.Intn(100)), Del: rng.Chance(0.15)})
		}
		sc.SharedCfg = rng.Chance(0.7)
		return sc, cfg
	}
	unbounded := false
	for i := 1 + rng.Intn(6); i > 0; i-- {
		v := genValue(rng, !unbounded)
		if v.Repeat == 0 {
			unbounded = true
		}
		sc.Values = append(sc.Values, v)
	}
	if unbounded {
		sc.Cut = 5 + rng.Intn(40)
		if sc.Mode == "poll" {
			sc.Mode = "stream"
		}
	}
	if sc.Mode == "stream" && !unbounded {
		sc.DisableEOF = rng.Chance(0.2)
	}
	if sc.Mode == "poll" && sc.Polls > 0 && !unbounded && rng.Chance(0.4) {
		shift := int64(rng.Intn(200))
		for i := 1 + rng.Intn(6); i > 0; i-- {
			v := genValue(rng, false)
			v.TS += shift
			sc.Values2 = append(sc.Values2, v)
		}
	}
	if !unbounded && len(sc.Values2) == 0 && rng.Chance(0.1) {
		sc.LateAdd, sc.Delay = true, true
		sc.LateAtNs = int64(rng.Intn(60))
		sc.LateTS = int64(rng.Intn(60))
		sc.LateRepeat = int32(1 + rng.Intn(3))
		return sc, cfg
	}
	if sc.Mode == "poll" && sc.Polls > 0 && !unbounded && len(sc.Values2) == 0 && rng.Chance(0.5) {
		sc.RaceSeed = sc.Seed + 1 + int64(rng.Intn(1000))
	}
	return sc, cfg
}

// genValue draws one configured value.
func genValue(rng *simrt.Rand, mayBeUnbounded bool) VSpec {
	v := VSpec{Kind: []string{"int", "int", "uint", "double", "string", "stringlist", "bool", "delete"}[rng.Intn(8)], Repeat: int32(1 + rng.Intn(5)),
		TS: int64(rng.Intn(50)), DMin: int64(rng.Intn(5))}
	v.DMax = v.DMin + int64(rng.Intn(6))
	if rng.Chance(0.3) {
		v.Seed = 1 + int64(rng.Intn(100))
	}
	if rng.Chance(0.08) && mayBeUnbounded {
		v.Repeat = 0
		if v.DMax == 0 {
			v.DMax = 1 // an unbounded value that never advances would starve everything after it: not a configuration anybody uses
			v.DMin = 1
		}
	}
	switch v.Kind {
	case "int", "uint", "double":
		v.Dist = []string{"none", "range", "delta", "list", "rlist"}[rng.Intn(5)]
		v.Min = int64(rng.Intn(50))
		if v.Kind == "int" && rng.Chance(0.5) {
			v.Min = -v.Min
		}
		v.Max = v.Min + int64(rng.Intn(100))
		v.Init = v.Min + int64(rng.Intn(int(v.Max-v.Min+1)))
		v.VDMin = -int64(rng.Intn(5))
		v.VDMax = int64(rng.Intn(5))
		if v.VDMin == 0 && v.VDMax == 0 {
			v.VDMax = 1
		}
	case "string", "stringlist", "bool":
		v.Dist = []string{"none", "list", "rlist"}[rng.Intn(3)]
	default:
		v.Dist = "none"
	}
	v.NOpts = 1 + rng.Intn(4)
	return v
}

func (H) Shrinks(s any) []any {
	sc := s.(*Scenario)
	var out []any
	clone := func() *Scenario {
		b, _ := json.Marshal(sc)
		c := &Scenario{}
		json.Unmarshal(b, c)
		return c
	}
	if len(sc.Values) > 1 {
		for i := range sc.Values {
			c := clone()
			c.Values = append(c.Values[:i], c.Values[i+1:]...)
			out = append(out, c)
		}
	}
	for i, v := range sc.Values {
		if v.Repeat > 1 {
			c := clone()
			c.Values[i].Repeat = v.Repeat - 1
			out = append(out, c)
		}
	}
	if sc.Delay {
		c := clone()
		c.Delay = false
		out = append(out, c)
	}
	if sc.Polls > 0 {
		c := clone()
		c.Polls--
		out = append(out, c)
	}
	if len(sc.Values2) > 0 {
		c := clone()
		c.Values2 = nil
		out = append(out, c)
		for i := range sc.Values2 {
			if len(sc.Values2) > 1 {
				c := clone()
				c.Values2 = append(c.Values2[:i], c.Values2[i+1:]...)
				out = append(out, c)
			}
		}
	}
	return out
}

func opts(v VSpec) []int64 {
	var o []int64
	for i := 0; i < v.NOpts; i++ {
		o = append(o, v.Min+int64(i)*3%(v.Max-v.Min+1))
	}
	return o
}

func sopts(v VSpec) []string {
	var o []string
	for i := 0; i < v.NOpts; i++ {
		o = append(o, fmt.Sprintf("o%d", i))
	}
	return o
}

func build(sc *Scenario) *fpb.Config {
	cfg := &fpb.Config{Target: "fake", Seed: sc.Seed, EnableDelay: sc.Delay, DisableSync: sc.DisableSync, DisableEof: sc.DisableEOF}
	if len(sc.Fixed) > 0 {
		fg := &fpb.FixedGenerator{}
		for i, f := range sc.Fixed {
			n := &gpb.Notification{Timestamp: f.TS}
			pth := &gpb.Path{Element: []string{"f", fmt.Sprint(i)}}
			if f.Del {
				n.Delete = []*gpb.Path{pth}
			} else {
				n.Update = []*gpb.Update{{Path: pth, Val: &gpb.TypedValue{Value: &gpb.TypedValue_IntVal{IntVal: f.Val}}}}
			}
			fg.Responses = append(fg.Responses, &gpb.SubscribeResponse{Response: &gpb.SubscribeResponse_Update{Update: n}})
		}
		cfg.Generator = &fpb.Config_Fixed{Fixed: fg}
		return cfg
	}
	for i, v := range sc.Values {
		fv := &fpb.Value{Path: []string{"v", fmt.Sprint(i)}, Repeat: v.Repeat, Seed: v.Seed, Timestamp: &fpb.Timestamp{Timestamp: v.TS, DeltaMin: v.DMin, DeltaMax: v.DMax}}
		switch v.Kind {
		case "int":
			iv := &fpb.IntValue{Value: v.Init}
			switch v.Dist {
			case "range":
				iv.Distribution = &fpb.IntValue_Range{Range: &fpb.IntRange{Minimum: v.Min, Maximum: v.Max}}
			case "delta":
				iv.Distribution = &fpb.IntValue_Range{Range: &fpb.IntRange{Minimum: v.Min, Maximum: v.Max, DeltaMin: v.VDMin, DeltaMax: v.VDMax}}
			case "list", "rlist":
				iv.Distribution = &fpb.IntValue_List{List: &fpb.IntList{Options: opts(v), Random: v.Dist == "rlist"}}
			}
			fv.Value = &fpb.Value_IntValue{IntValue: iv}
		case "uint":
			mn, mx, in := uint64(abs(v.Min)), uint64(abs(v.Min))+uint64(v.Max-v.Min), uint64(abs(v.Min))+uint64(v.Init-v.Min)
			uv := &fpb.UintValue{Value: in}
			switch v.Dist {
			case "range":
				uv.Distribution = &fpb.UintValue_Range{Range: &fpb.UintRange{Minimum: mn, Maximum: mx}}
			case "delta":
				uv.Distribution = &fpb.UintValue_Range{Range: &fpb.UintRange{Minimum: mn, Maximum: mx, DeltaMin: v.VDMin, DeltaMax: v.VDMax}}
			case "list", "rlist":
				var o []uint64
				for k := 0; k < v.NOpts; k++ {
					o = append(o, mn+uint64(k))
				}
				uv.Distribution = &fpb.UintValue_List{List: &fpb.UintList{Options: o, Random: v.Dist == "rlist"}}
			}
			fv.Value = &fpb.Value_UintValue{UintValue: uv}
		case "double":
			dv := &fpb.DoubleValue{Value: float64(v.Init)}
			switch v.Dist {
			case "range":
				dv.Distribution = &fpb.DoubleValue_Range{Range: &fpb.DoubleRange{Minimum: float64(v.Min), Maximum: float64(v.Max)}}
			case "delta":
				dv.Distribution = &fpb.DoubleValue_Range{Range: &fpb.DoubleRange{Minimum: float64(v.Min), Maximum: float64(v.Max), DeltaMin: float64(v.VDMin), DeltaMax: float64(v.VDMax)}}
			case "list", "rlist":
				var o []float64
				for _, x := range opts(v) {
					o = append(o, float64(x)+0.5)
				}
				dv.Distribution = &fpb.DoubleValue_List{List: &fpb.DoubleList{Options: o, Random: v.Dist == "rlist"}}
			}
			fv.Value = &fpb.Value_DoubleValue{DoubleValue: dv}
		case "string":
			sv := &fpb.StringValue{Value: "init"}
			if v.Dist != "none" {
				sv.Distribution = &fpb.StringValue_List{List: &fpb.StringList{Options: sopts(v), Random: v.Dist == "rlist"}}
			}
			fv.Value = &fpb.Value_StringValue{StringValue: sv}
		case "stringlist":
			sv := &fpb.StringListValue{Value: []string{"init"}}
			if v.Dist != "none" {
				sv.Distribution = &fpb.StringListValue_List{List: &fpb.StringList{Options: sopts(v), Random: v.Dist == "rlist"}}
			}
			fv.Value = &fpb.Value_StringListValue{StringListValue: sv}
		case "bool":
			bv := &fpb.BoolValue{Value: true}
			if v.Dist != "none" {
				bv.Distribution = &fpb.BoolValue_List{List: &fpb.BoolList{Options: []bool{true, false, true}[:1+v.NOpts%3], Random: v.Dist == "rlist"}}
			}
			fv.Value = &fpb.Value_BoolValue{BoolValue: bv}
		case "delete":
			fv.Value = &fpb.Value_Delete{Delete: &fpb.DeleteValue{}}
		}
		cfg.Values = append(cfg.Values, fv)
	}
	return cfg
}

func abs(x int64) int64 {
	if x < 0 {
		return -x
	}
	return x
}

type sent struct {
	ns int64
	b  []byte
}

type emitted struct {
	sync  bool
	path  string
	ts    int64
	val   string
	num   float64
	isNum bool
	del   bool
	ns    int64 // virtual time handed to Send
	tgt   string
}

func decodeAll(ms []sent) []emitted {
	var out []emitted
	for _, m := range ms {
		r := &gpb.SubscribeResponse{}
		if proto.Unmarshal(m.b, r) != nil {
			continue
		}
		e := emitted{ns: m.ns}
		switch {
		case r.GetSyncResponse():
			e.sync = true
		case r.GetUpdate() != nil:
			n := r.GetUpdate()
			e.ts = n.Timestamp
			e.tgt = n.GetPrefix().GetTarget()
			if len(n.Delete) > 0 {
				e.del = true
				e.path = strings.Join(n.Delete[0].Element, "/")
			} else if len(n.Update) > 0 {
				u := n.Update[0]
				e.path = strings.Join(u.Path.Element, "/")
				switch v := u.Val.Value.(type) {
				case *gpb.TypedValue_IntVal:
					e.num, e.isNum = float64(v.IntVal), true
				case *gpb.TypedValue_UintVal:
					e.num, e.isNum = float64(v.UintVal), true
				case *gpb.TypedValue_DoubleVal:
					e.num, e.isNum = v.DoubleVal, true
				}
				e.val = fmt.Sprint(u.Val)
			}
		}
		out = append(out, e)
	}
	return out
}

func (H) Execute(x *common.Exec, s any) {
	sc := s.(*Scenario)
	const engines = 2
	// every lock release of the fake is a scheduling point of its own: what a
	// goroutine reads after it dropped the configuration lock can then change
	// under its feet, as it can in a real process
	simsync.YieldAfterUnlock = true
	defer func() { simsync.YieldAfterUnlock = false }()
	if sc.LateAdd {
		execLateAdd(x, sc)
		return
	}
	simgrpc.SetHooks(&simgrpc.Hooks{Window: sc.Window})
	var sts [engines]*simgrpc.Stream
	var runErr [engines]error
	var recvN [engines]int
	var done [engines]bool
	var lists [engines][]sent
	ctx, cancel := context.WithCancel(context.Background())
	defer cancel()
	gs := simgrpc.NewServer()
	_ = gs
	shared := build(sc)
	for e := 0; e < engines; e++ {
		e := e
		cfg := build(sc)
		if sc.SharedCfg {
			cfg = shared
		}
		cl := fgnmi.NewClient(cfg)
		// a one-service server whose Subscribe runs this engine
		srv := simgrpc.NewServer()
		gpb.RegisterGNMIServer(srv, &engineSrv{run: func(stream gpb.GNMI_SubscribeServer) error {
			err := cl.Run(stream)
			runErr[e] = err
			done[e] = true
			return err
		}})
		x.R.Go(fmt.Sprintf("client%d", e), func() {
			sctx, scancel := context.WithCancel(ctx)
			defer scancel()
			st, err := srv.StartStream(sctx, "/gnmi.gNMI/Subscribe", "fake")
			if err != nil {
				return
			}
			sts[e] = st
			stop := context.AfterFunc(sctx, func() { st.Break(1, "client cancelled") })
			defer stop()
			cs := st.ClientSide()
			sl := &gpb.SubscriptionList{Prefix: &gpb.Path{Target: sc.Target}}
			switch sc.Mode {
			case "once":
				sl.Mode = gpb.SubscriptionList_ONCE
			case "poll":
				sl.Mode = gpb.SubscriptionList_POLL
			}
			cs.SendMsg(&gpb.SubscribeRequest{Request: &gpb.SubscribeRequest_Subscribe{Subscribe: sl}})
			polls := 0
			perRound := 0
			cur := sc
			for {
				m := &gpb.SubscribeResponse{}
				if err := cs.RecvMsg(m); err != nil {
					return
				}
				recvN[e]++
				perRound++
				if sc.Cut > 0 && recvN[e] >= sc.Cut {
					cl.Close()
					scancel()
					return
				}
				if sc.Mode == "poll" && expectedRoundLen(cur) > 0 && perRound == expectedRoundLen(cur) {
					perRound = 0
					if polls < sc.Polls {
						polls++
						if polls == 1 && len(sc.Values2) > 0 {
							cur = second(sc)
							cl.SetConfig(build(cur))
						}
						if polls == 1 && sc.RaceSeed > 0 && e == 1 {
							cl.SetConfig(build(reseeded(sc)))
						}
						cs.SendMsg(&gpb.SubscribeRequest{Request: &gpb.SubscribeRequest_Poll{Poll: &gpb.Poll{}}})
						if polls == 1 && sc.RaceSeed > 0 && e == 0 {
							cl.SetConfig(build(reseeded(sc))) // races the rebuild of the generator
						}
					} else {
						cl.Close()
						scancel()
						return
					}
				}
			}
		})
	}
	out := x.R.Schedule(false, nil)
	x.R.AcquireEnd()
	if out == simrt.StepLimit {
		x.Inconclusive = "step-limit"
		return
	}
	if bl := x.R.BlockedOnLocks(); len(bl) > 0 && out == simrt.Quiescent {
		x.Violate("C20/deadlock", "the engine's goroutines are blocked on each other's locks and nothing else can happen: %v\nall tasks: %s", bl, x.R.Summary())
		return
	}
	// DisableEof engines hold the stream open until closed: end them now.
	cancel()
	x.R.Schedule(true, nil)
	x.R.AcquireEnd()
	for e := 0; e < engines; e++ {
		if sts[e] == nil {
			continue
		}
		for i, b := range sts[e].Sent {
			ns := int64(0)
			if i < len(sts[e].SentNs) {
				ns = sts[e].SentNs[i]
			}
			lists[e] = append(lists[e], sent{ns: ns, b: b})
		}
	}
	em := [engines][]emitted{decodeAll(lists[0]), decodeAll(lists[1])}
	x.NonTrivial = len(em[0]) >= 2
	if sc.Cut > 0 {
		x.Fault("client-cancels-mid-stream")
	}
	if sc.Window <= 1 {
		x.Fault("slow-transport-window-" + fmt.Sprint(sc.Window))
	}
	if sc.Delay {
		x.Fault("timestamp-paced-delays")
	}
	if sc.DisableSync {
		x.Fault("sync-disabled")
	}
	if sc.Mode == "poll" && sc.Polls > 0 {
		x.Fault("poll-regenerates-queue")
	}
	if len(sc.Values2) > 0 {
		x.Fault("configuration-replaced-between-polls")
	}
	if len(sc.Fixed) > 0 {
		x.Fault("fixed-responses-configuration")
	}
	if sc.SharedCfg {
		x.Fault("two-engines-built-from-one-configuration-object")
	}
	hh := fnv.New64a()
	for _, e := range em[0] {
		fmt.Fprint(hh, e.path, e.ts, e.val, e.sync)
	}
	x.StateHash = hh.Sum64()
	show := func(es []emitted) string {
		var sb strings.Builder
		for i, e := range es {
			if e.sync {
				fmt.Fprintf(&sb, "  #%d t=%v sync\n", i, time.Duration(e.ns))
			} else {
				fmt.Fprintf(&sb, "  #%d t=%v %s ts=%d %s del=%v\n", i, time.Duration(e.ns), e.path, e.ts, e.val, e.del)
			}
		}
		return sb.String()
	}
	if sc.RaceSeed > 0 {
		x.Fault("configuration-replaced-while-the-generator-is-rebuilt")
		// engine 1 is the reference: pass 0 plays the old seed, every later pass
		// the new one. Engine 0's first pass plays the old one, each later pass
		// either - but one of them, whole.
		L := expectedRoundLen(sc)
		same := func(a, b []emitted) bool {
			if len(a) != len(b) {
				return false
			}
			for i := range a {
				if a[i].sync != b[i].sync || a[i].path != b[i].path || a[i].ts != b[i].ts || a[i].val != b[i].val || a[i].del != b[i].del {
					return false
				}
			}
			return true
		}
		if L > 0 && len(em[1]) >= 2*L && len(em[0]) >= L {
			refOld, refNew := em[1][:L], em[1][L:2*L]
			for r := 0; (r+1)*L <= len(em[0]); r++ {
				pass := em[0][r*L : (r+1)*L]
				x.Oblige(1)
				if same(pass, refOld) || r > 0 && same(pass, refNew) {
					continue
				}
				x.Violate("C20/not-reproducible", "pass %d of an engine whose configuration was replaced (seed %d -> %d) while it rebuilt its generator is neither the sequence of the old configuration nor that of the new one\npass:\n%sold configuration:\n%snew configuration:\n%s", r, sc.Seed, sc.RaceSeed, show(pass), show(refOld), show(refNew))
				return
			}
		}
		for e := 0; e < engines; e++ {
			for r := 0; L > 0 && (r+1)*L <= len(em[e]) && len(em[1]) >= 2*L; r++ {
				pass := em[e][r*L : (r+1)*L]
				spec := sc
				if r > 0 && same(pass, em[1][L:2*L]) {
					spec = reseeded(sc)
				}
				judgeRound(x, spec, pass, show)
				if len(x.Viol) > 0 {
					return
				}
			}
		}
		return
	}
	// ---- reproducibility: same configuration and seed => identical sequences
	x.Oblige(1)
	n := len(em[0])
	if len(em[1]) < n {
		n = len(em[1])
	}
	if sc.Cut == 0 && len(em[0]) != len(em[1]) {
		x.Violate("C20/not-reproducible", "two engines with the same configuration and seed emitted %d and %d messages\nfirst:\n%ssecond:\n%s", len(em[0]), len(em[1]), show(em[0]), show(em[1]))
		return
	}
	for i := 0; i < n; i++ {
		a, b := em[0][i], em[1][i]
		if a.sync != b.sync || a.path != b.path || a.ts != b.ts || a.val != b.val || a.del != b.del {
			x.Violate("C20/not-reproducible", "two engines with the same configuration and seed differ at message %d\nfirst:\n%ssecond:\n%s", i, show(em[0]), show(em[1]))
			return
		}
	}
	rounds := 1
	if sc.Mode == "poll" {
		rounds = 1 + sc.Polls
	}
	for e := 0; e < engines; e++ {
		es := em[e]
		// split into rounds (POLL re-plays the configuration on every trigger;
		// after a SetConfig, the new one)
		off := 0
		total := 0
		for r := 0; r < rounds; r++ {
			cur := sc
			if r >= 1 && len(sc.Values2) > 0 {
				cur = second(sc)
			}
			per := expectedRoundLen(cur)
			total += per
			var round []emitted
			if per > 0 {
				if off+per > len(es) {
					if sc.Cut == 0 {
						x.Violate("C20/missing-emissions", "round %d: %d messages emitted in total, %d expected by the end of this round\n%s", r, len(es), off+per, show(es))
						return
					}
					break
				}
				round = es[off : off+per]
				off += per
			} else {
				round = es
			}
			judgeRound(x, cur, round, show)
			if len(x.Viol) > 0 {
				return
			}
		}
		if expectedRoundLen(sc) > 0 && sc.Cut == 0 && len(es) != total {
			x.Violate("C20/extra-emissions", "%d messages emitted, expected %d in %d round(s)\n%s", len(es), total, rounds, show(es))
			return
		}
	}
}

// reseeded is the scenario with the replacement seed of a RaceSeed run.
func reseeded(sc *Scenario) *Scenario {
	c := *sc
	c.Seed = sc.RaceSeed
	// same shape (kinds, repeats, timestamps: the passes have the same length),
	// other numbers: a generator built from the old values and the new seed is
	// neither configuration's
	c.Values = append([]VSpec(nil), sc.Values...)
	for i := range c.Values {
		c.Values[i].Min += 7
		c.Values[i].Max += 7
		c.Values[i].Init += 7
	}
	return &c
}

// second is the scenario as it is after the SetConfig of a POLL run.
func second(sc *Scenario) *Scenario {
	c := *sc
	c.Values = sc.Values2
	c.Values2 = nil
	return &c
}

// expectedRoundLen is the number of messages of one pass over the
// configuration (0 = unbounded).
func expectedRoundLen(sc *Scenario) int {
	n := 0
	if len(sc.Fixed) > 0 {
		n = len(sc.Fixed)
		if !sc.DisableSync {
			n++
		}
		return n
	}
	for _, v := range sc.Values {
		if v.Repeat == 0 {
			return 0
		}
		n += int(v.Repeat)
	}
	if !sc.DisableSync {
		n++
	}
	return n
}

// judgeFixedRound: a fixed-responses configuration is played verbatim, in
// order, every configured response exactly once, then the sync marker.
func judgeFixedRound(x *common.Exec, sc *Scenario, es []emitted, show func([]emitted) string) {
	complete := sc.Cut == 0
	k := 0
	for i, e := range es {
		x.Oblige(1)
		if e.sync {
			if sc.DisableSync {
				x.Violate("C20/unexpected-sync", "sync marker emitted with disable_sync\n%s", show(es))
				return
			}
			if k != len(sc.Fixed) {
				x.Violate("C20/sync-before-first-emission", "fixed responses: sync marker at #%d after only %d of the %d configured responses\n%s", i, k, len(sc.Fixed), show(es))
				return
			}
			continue
		}
		if k >= len(sc.Fixed) {
			x.Violate("C20/extra-emissions", "fixed responses: message #%d after all %d configured responses were played\n%s", i, len(sc.Fixed), show(es))
			return
		}
		f := sc.Fixed[k]
		wantVal := ""
		if !f.Del {
			wantVal = fmt.Sprint(&gpb.TypedValue{Value: &gpb.TypedValue_IntVal{IntVal: f.Val}})
		}
		if e.path != fmt.Sprintf("f/%d", k) || e.ts != f.TS || e.del != f.Del || e.val != wantVal {
			x.Violate("C20/fixed-response-altered", "fixed responses: message #%d is %s ts=%d %s del=%v, the configuration's response %d is f/%d ts=%d %s del=%v\n%s", i, e.path, e.ts, e.val, e.del, k, k, f.TS, wantVal, f.Del, show(es))
			return
		}
		if sc.Target != "" && e.tgt != sc.Target {
			x.Violate("C20/target-not-stamped", "message %d carries target %q, the subscription asked for %q", i, e.tgt, sc.Target)
		}
		k++
	}
	if complete && k != len(sc.Fixed) {
		x.Violate("C20/missing-emissions", "fixed responses: %d of the %d configured responses were played\n%s", k, len(sc.Fixed), show(es))
	}
}

func judgeRound(x *common.Exec, sc *Scenario, es []emitted, show func([]emitted) string) {
	if len(sc.Fixed) > 0 {
		judgeFixedRound(x, sc, es, show)
		return
	}
	last := int64(math.MinInt64)
	count := map[string]int{}
	first := map[string]int{}
	prev := map[string]emitted{}
	syncAt := -1
	for i, e := range es {
		if e.sync {
			x.Oblige(1)
			if syncAt >= 0 {
				x.Violate("C20/two-syncs", "two sync markers in one pass\n%s", show(es))
				return
			}
			syncAt = i
			continue
		}
		x.Oblige(3)
		if e.ts < last {
			x.Violate("C20/timestamps-decrease", "message %d has timestamp %d after %d\n%s", i, e.ts, last, show(es))
			return
		}
		last = e.ts
		if sc.Target != "" && e.tgt != sc.Target {
			x.Violate("C20/target-not-stamped", "message %d carries target %q, the subscription asked for %q", i, e.tgt, sc.Target)
		}
		var idx int
		fmt.Sscanf(e.path, "v/%d", &idx)
		if idx < 0 || idx >= len(sc.Values) {
			x.Violate("C20/unknown-path", "message %d has path %q", i, e.path)
			return
		}
		v := sc.Values[idx]
		if _, ok := first[e.path]; !ok {
			first[e.path] = i
		}
		count[e.path]++
		// value bounds
		if e.isNum && (v.Dist == "range" || v.Dist == "delta") {
			lo, hi := float64(v.Min), float64(v.Max)
			if v.Kind == "uint" {
				lo, hi = float64(abs(v.Min)), float64(abs(v.Min))+float64(v.Max-v.Min)
			}
			if e.num < lo || e.num > hi {
				x.Violate("C20/value-out-of-range", "message %d: %s = %v outside [%v, %v]\n%s", i, e.path, e.num, lo, hi, show(es))
				return
			}
		}
		if p, ok := prev[e.path]; ok {
			d := e.ts - p.ts
			if d < v.DMin || d > v.DMax {
				x.Violate("C20/timestamp-step-out-of-bounds", "%s: timestamp step %d outside [%d, %d]\n%s", e.path, d, v.DMin, v.DMax, show(es))
				return
			}
			if e.isNum && v.Dist == "delta" {
				step := e.num - p.num
				lo, hi := float64(v.Min), float64(v.Max)
				if v.Kind == "uint" {
					lo, hi = float64(abs(v.Min)), float64(abs(v.Min))+float64(v.Max-v.Min)
				}
				clamped := e.num == lo || e.num == hi
				if !clamped && (step < float64(v.VDMin)-1e-9 || step > float64(v.VDMax)+1e-9) {
					x.Violate("C20/value-step-out-of-bounds", "%s: value step %v outside [%d, %d]\n%s", e.path, step, v.VDMin, v.VDMax, show(es))
					return
				}
			}
		}
		prev[e.path] = e
	}
	complete := sc.Cut == 0
	if complete {
		for i, v := range sc.Values {
			p := fmt.Sprintf("v/%d", i)
			x.Oblige(1)
			if v.Repeat > 0 && count[p] != int(v.Repeat) {
				x.Violate("C20/repeat-count", "%s emitted %d time(s), configured repeat %d\n%s", p, count[p], v.Repeat, show(es))
				return
			}
		}
	}
	if !sc.DisableSync && (complete || syncAt >= 0) {
		x.Oblige(1)
		if syncAt < 0 {
			x.Violate("C20/no-sync", "no sync marker\n%s", show(es))
			return
		}
		for i := range sc.Values {
			p := fmt.Sprintf("v/%d", i)
			if f, ok := first[p]; !ok || f > syncAt {
				x.Violate("C20/sync-before-first-emission", "sync marker at #%d but %s is first emitted at #%d (present=%v)\n%s", syncAt, p, f, ok, show(es))
				return
			}
		}
	}
	if sc.DisableSync && syncAt >= 0 {
		x.Violate("C20/unexpected-sync", "sync marker emitted with disable_sync\n%s", show(es))
	}
	// virtual delays: the gap between two sends equals the timestamp gap
	if sc.Delay && sc.Window >= 4 {
		for i := 1; i < len(es); i++ {
			a, b := es[i-1], es[i]
			if a.sync || b.sync {
				continue
			}
			x.Oblige(1)
			if want := b.ts - a.ts; b.ns-a.ns != want {
				x.Violate("C20/delay-mismatch", "messages #%d -> #%d: timestamps differ by %dns but they were sent %dns apart\n%s", i-1, i, want, b.ns-a.ns, show(es))
				return
			}
		}
	}
}

type engineSrv struct {
	gpb.UnimplementedGNMIServer
	run func(gpb.GNMI_SubscribeServer) error
}

func (e *engineSrv) Subscribe(s gpb.GNMI_SubscribeServer) error { return e.run(s) }

var _ = grpc.ErrServerStopped

// execLateAdd: the generator at queue level. One task consumes queue.New(delay
// on) with Next until it is exhausted (and the adder is done); another adds one
// value after LateAtNs. Every value - configured or added - must come out
// exactly as many times as its repeat count says.
func execLateAdd(x *common.Exec, sc *Scenario) {
	cfg := build(sc)
	q := fqueue.New(true, sc.Seed, cfg.Values)
	type em struct {
		path string
		ts   int64
	}
	var out []em
	var adderDone atomic.Bool
	var nextErr error
	x.R.Go("consumer", func() {
		for i := 0; i < 10000; i++ {
			done := adderDone.Load() // read before Next: an empty queue is final only if the add had completed by then
			v, err := q.Next()
			if err != nil {
				nextErr = err
				return
			}
			if v == nil {
				if done {
					return
				}
				simrt.Sleep(time.Nanosecond)
				continue
			}
			fv := v.(*fpb.Value)
			out = append(out, em{strings.Join(fv.Path, "/"), fv.GetTimestamp().GetTimestamp()})
		}
	})
	x.R.Go("adder", func() {
		if sc.LateAtNs > 0 {
			simrt.Sleep(time.Duration(sc.LateAtNs))
		}
		q.Add(&fpb.Value{Path: []string{"late"}, Repeat: sc.LateRepeat, Timestamp: &fpb.Timestamp{Timestamp: sc.LateTS},
			Value: &fpb.Value_IntValue{IntValue: &fpb.IntValue{Value: 1}}})
		adderDone.Store(true)
	})
	o := x.R.Schedule(false, nil)
	x.R.AcquireEnd()
	if o == simrt.StepLimit {
		x.Inconclusive = "step-limit"
		return
	}
	x.Fault("value-added-while-the-generator-is-consumed")
	x.NonTrivial = len(out) >= 2
	if o != simrt.AllDone {
		x.Violate("C20/deadlock", "consumer / adder of the generator did not finish: %s", x.R.Summary())
		return
	}
	if nextErr != nil {
		x.Violate("C20/next-error", "Next returned %v", nextErr)
		return
	}
	count := map[string]int{}
	var sb strings.Builder
	for i, e := range out {
		count[e.path]++
		fmt.Fprintf(&sb, "  #%d %s ts=%d\n", i, e.path, e.ts)
	}
	x.Oblige(1 + len(sc.Values))
	if count["late"] != int(sc.LateRepeat) {
		x.Violate("C20/repeat-count", "the value added while the generator was running (timestamp %d, repeat %d, added after %dns) was emitted %d time(s)\n%s", sc.LateTS, sc.LateRepeat, sc.LateAtNs, count["late"], sb.String())
		return
	}
	for i, v := range sc.Values {
		p := fmt.Sprintf("v/%d", i)
		if count[p] != int(v.Repeat) {
			x.Violate("C20/repeat-count", "%s emitted %d time(s), configured repeat %d (a value was added while the generator was running)\n%s", p, count[p], v.Repeat, sb.String())
			return
		}
	}
}
