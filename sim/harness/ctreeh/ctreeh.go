//go:build go1.25

// Package ctreeh is the harness for the path tree: C09 (sequential map
// semantics) and C10 (concurrency: linearizability, query windows, deadlock,
// panics, data races).
package ctreeh

import (
	"encoding/json"
	"fmt"
	"hash/fnv"
	"sort"
	"strconv"
	"strings"
	"time"

	"github.com/anishathalye/porcupine"
	"github.com/openconfig/gnmi/ctree"
	"github.com/openconfig/gnmi/zzverif/harness/common"
	"github.com/openconfig/gnmi/zzverif/simrt"
)

// Op is one tree operation.
type Op struct {
	K string   `json:"k"`
	P []string `json:"p"`
	V int      `json:"v,omitempty"` // value (add, hupd) or condition parity (delc, wdel: 0/1, 2 = always)
	H int      `json:"h,omitempty"` // handle slot (getleaf, hupd, hval)
}

// Scenario is a set of per-task operation lists.
type Scenario struct {
	Mode  string `json:"mode"` // seq | lin | handles
	Tasks [][]Op `json:"tasks"`
}

// H is the harness.
type H struct{}

func (H) Name() string { return "ctree" }

// RaceProperty: race freedom of the tree is C10's clause.
func (H) RaceProperty(prop string) string { return "C10" }

func (H) Decode(b []byte) (any, error) {
	s := &Scenario{}
	return s, json.Unmarshal(b, s)
}

var alphabet = []string{"a", "b", "c"}

func genPath(rng *simrt.Rand, glob bool, maxLen int) []string {
	n := rng.Pick(1, 4, 6, 4, 2)
	if n > maxLen {
		n = maxLen
	}
	p := make([]string, n)
	for i := range p {
		if glob && rng.Chance(0.3) {
			p[i] = "*"
		} else {
			p[i] = alphabet[rng.Intn(len(alphabet))]
		}
	}
	return p
}

func (H) Generate(rng *simrt.Rand, prop, tier string) (any, simrt.Config) {
	sc := &Scenario{}
	cfg := simrt.RandomConfig(rng)
	next := 1
	val := func() int { next++; return next }
	var hot [][]string
	for i := 2 + rng.Intn(2); i > 0; i-- {
		hot = append(hot, genPath(rng, false, 3))
	}
	gen := func(mode string, n int) []Op {
		var ops []Op
		for i := 0; i < n; i++ {
			var op Op
			switch mode {
			case "seq":
				switch rng.Pick(30, 8, 6, 10, 4, 4, 10, 6, 6, 4, 2) {
				case 0:
					op = Op{K: "add", P: genPath(rng, rng.Chance(0.03), 4), V: val()}
				case 1:
					op = Op{K: "get", P: genPath(rng, false, 4)}
				case 2:
					op = Op{K: "glv", P: genPath(rng, false, 4)}
				case 3:
					op = Op{K: "query", P: genPath(rng, true, 4)}
				case 4:
					op = Op{K: "walk"}
				case 5:
					op = Op{K: "walks"}
				case 6:
					op = Op{K: "del", P: genPath(rng, true, 4)}
				case 7:
					op = Op{K: "delc", P: genPath(rng, true, 4), V: rng.Intn(3)}
				case 8:
					op = Op{K: "wdel", P: genPath(rng, true, 4), V: rng.Intn(3)}
				case 9:
					op = Op{K: "children", P: genPath(rng, false, 3)}
				case 10:
					op = Op{K: "getleaf", P: genPath(rng, false, 4)}
				}
			case "lin":
				switch rng.Pick(40, 8, 12, 10, 3, 12, 4, 3, 3) {
				case 0:
					op = Op{K: "add", P: genPath(rng, false, 3), V: val()}
				case 1:
					op = Op{K: "get", P: genPath(rng, false, 3)}
				case 2:
					op = Op{K: "glv", P: genPath(rng, false, 3)}
				case 3:
					op = Op{K: "query", P: genPath(rng, true, 3)}
				case 4:
					op = Op{K: "walk"}
				case 5:
					op = Op{K: "del", P: genPath(rng, true, 3)}
				case 6:
					op = Op{K: "delc", P: genPath(rng, true, 3), V: rng.Intn(3)}
				case 7:
					op = Op{K: "wdel", P: genPath(rng, true, 3), V: rng.Intn(3)}
				case 8:
					op = Op{K: "walks"} // WalkSorted under concurrency: same window clauses as Walk, plus the order
				}
			default: // handles
				// a few hot paths per scenario, so that handles, updates through
				// them and deletes naming exactly that leaf meet
				hp := func(glob bool) []string {
					if rng.Chance(0.6) {
						return hot[rng.Intn(len(hot))]
					}
					return genPath(rng, glob, 3)
				}
				switch rng.Pick(30, 14, 14, 10, 8, 10, 4, 4, 4, 4, 3) {
				case 0:
					op = Op{K: "add", P: hp(false), V: val()}
				case 1:
					op = Op{K: "getleaf", P: hp(false), H: rng.Intn(3)}
				case 2:
					op = Op{K: "hupd", H: rng.Intn(3), V: val()}
				case 3:
					op = Op{K: "hval", H: rng.Intn(3)}
				case 4:
					op = Op{K: "query", P: genPath(rng, true, 3)}
				case 5:
					op = Op{K: "del", P: hp(true)}
				case 6:
					op = Op{K: "walk"}
				case 7:
					op = Op{K: "glv", P: hp(false)}
				case 8:
					op = Op{K: "delc", P: hp(true), V: rng.Intn(3)}
				case 9:
					op = Op{K: "wdel", P: hp(true), V: rng.Intn(3)}
				case 10:
					op = Op{K: "walks"}
				}
			}
			ops = append(ops, op)
		}
		return ops
	}
	if prop == "C09" {
		sc.Mode = "seq"
		n := 5 + rng.Intn(36)
		if rng.Chance(0.3) {
			n = 1 + rng.Intn(4)
		}
		sc.Tasks = [][]Op{gen("seq", n)}
		cfg.Strategy = simrt.StratRandom
		return sc, cfg
	}
	sc.Mode = "lin"
	if rng.Chance(0.35) {
		sc.Mode = "handles"
	}
	nt := 2 + rng.Pick(8, 6, 3, 1, 1)
	if tier == "thorough" && rng.Chance(0.1) {
		nt = 8 + rng.Intn(9)
	}
	budget := 16 + rng.Intn(20) // total ops (porcupine history cap)
	if sc.Mode == "handles" {
		budget = 20 + rng.Intn(60)
	}
	for i := 0; i < nt; i++ {
		n := 1 + budget/nt
		if n > 1 {
			n = 1 + rng.Intn(n)
		}
		sc.Tasks = append(sc.Tasks, gen(sc.Mode, n))
	}
	return sc, cfg
}

func (H) Shrinks(s any) []any {
	sc := s.(*Scenario)
	var out []any
	clone := func() *Scenario {
		c := &Scenario{Mode: sc.Mode}
		for _, t := range sc.Tasks {
			c.Tasks = append(c.Tasks, append([]Op(nil), t...))
		}
		return c
	}
	// drop a whole task
	if len(sc.Tasks) > 1 {
		for i := range sc.Tasks {
			c := clone()
			c.Tasks = append(c.Tasks[:i], c.Tasks[i+1:]...)
			out = append(out, c)
		}
	}
	// drop halves, then single ops
	for i, t := range sc.Tasks {
		if len(t) >= 4 {
			c := clone()
			c.Tasks[i] = c.Tasks[i][:len(t)/2]
			out = append(out, c)
			c = clone()
			c.Tasks[i] = c.Tasks[i][len(t)/2:]
			out = append(out, c)
		}
	}
	for i, t := range sc.Tasks {
		for j := range t {
			c := clone()
			c.Tasks[i] = append(c.Tasks[i][:j], c.Tasks[i][j+1:]...)
			out = append(out, c)
		}
	}
	// shorten paths
	for i, t := range sc.Tasks {
		for j, op := range t {
			if len(op.P) > 1 {
				c := clone()
				c.Tasks[i][j].P = op.P[:len(op.P)-1]
				out = append(out, c)
			}
		}
	}
	return out
}

// ---------------------------------------------------------------- model

func key(p []string) string { return strings.Join(p, "/") }

func unkey(k string) []string {
	if k == "" {
		return nil
	}
	return strings.Split(k, "/")
}

// model is the statement's view of the tree: a prefix-free map.
type model map[string]int

func isProperPrefix(a, b []string) bool {
	if len(a) >= len(b) {
		return false
	}
	for i := range a {
		if a[i] != b[i] {
			return false
		}
	}
	return true
}

func (m model) add(p []string, v int) bool {
	k := key(p)
	if _, ok := m[k]; ok {
		m[k] = v
		return true
	}
	for s := range m {
		sp := unkey(s)
		if isProperPrefix(sp, p) || isProperPrefix(p, sp) {
			return false
		}
	}
	m[k] = v
	return true
}

const (
	noMatch = iota
	mustMatch
	mayMatch // a trailing glob one element past a leaf: the statement does not say
)

func match(pat, leaf []string) int {
	n, l := len(pat), len(leaf)
	for i := 0; i < n && i < l; i++ {
		if pat[i] != "*" && pat[i] != leaf[i] {
			return noMatch
		}
	}
	if n <= l {
		return mustMatch
	}
	if n == l+1 && pat[l] == "*" {
		return mayMatch
	}
	return noMatch
}

// cond returns the predicate for parity code par: 2 = always, 0 = even, 1 = odd.
func cond(par int) func(int) bool {
	switch par {
	case 0:
		return func(v int) bool { return v%2 == 0 }
	case 1:
		return func(v int) bool { return v%2 == 1 }
	}
	return func(int) bool { return true }
}

// sel returns the must and may sets (keys) of leaves selected by pat and c.
func (m model) sel(pat []string, c func(int) bool) (must, may map[string]bool) {
	must, may = map[string]bool{}, map[string]bool{}
	for k, v := range m {
		if !c(v) {
			continue
		}
		switch match(pat, unkey(k)) {
		case mustMatch:
			must[k] = true
		case mayMatch:
			may[k] = true
		}
	}
	return
}

func (m model) get(p []string) string {
	k := key(p)
	if v, ok := m[k]; ok {
		return "leaf:" + strconv.Itoa(v)
	}
	for s := range m {
		if isProperPrefix(p, unkey(s)) {
			return "branch"
		}
	}
	if len(p) == 0 {
		return "empty-root"
	}
	return "nil"
}

func (m model) children(p []string) string {
	set := map[string]bool{}
	for s := range m {
		sp := unkey(s)
		if isProperPrefix(p, sp) {
			set[sp[len(p)]] = true
		}
	}
	if len(set) == 0 {
		return "nil"
	}
	var ks []string
	for k := range set {
		ks = append(ks, k)
	}
	sort.Strings(ks)
	return strings.Join(ks, ",")
}

func (m model) encode() string {
	ks := make([]string, 0, len(m))
	for k := range m {
		ks = append(ks, k)
	}
	sort.Strings(ks)
	var sb strings.Builder
	for _, k := range ks {
		fmt.Fprintf(&sb, "%s=%d;", k, m[k])
	}
	return sb.String()
}

func decode(s string) model {
	m := model{}
	for _, kv := range strings.Split(s, ";") {
		if kv == "" {
			continue
		}
		i := strings.LastIndex(kv, "=")
		v, _ := strconv.Atoi(kv[i+1:])
		m[kv[:i]] = v
	}
	return m
}

// ---------------------------------------------------------------- execution

// rec is one recorded operation.
type rec struct {
	Task     int
	Op       Op
	Inv, Ret int64
	Out      string         // canonical result
	Set      map[string]int // leaves reported (query/walk) or removed (deletes): key -> value (value -1 when unknown)
	Order    []string       // report order (walks)
}

func (r rec) String() string {
	return fmt.Sprintf("t%d %s %v v=%d h=%d [%d,%d] -> %s", r.Task, r.Op.K, r.Op.P, r.Op.V, r.Op.H, r.Inv, r.Ret, r.Out)
}

func setString(s map[string]int, withVal bool) string {
	ks := make([]string, 0, len(s))
	for k := range s {
		ks = append(ks, k)
	}
	sort.Strings(ks)
	var sb strings.Builder
	for _, k := range ks {
		if withVal {
			fmt.Fprintf(&sb, "%s=%d;", k, s[k])
		} else {
			sb.WriteString(k + ";")
		}
	}
	return sb.String()
}

// apply performs op on the real tree.
func apply(t *ctree.Tree, op Op, handles []*ctree.Leaf) rec {
	r := rec{Op: op}
	visit := func(p []string, _ *ctree.Leaf, v interface{}) error {
		k := key(p)
		iv, _ := v.(int)
		if _, dup := r.Set[k]; dup {
			r.Out = "DUPLICATE:" + k
		}
		r.Set[k] = iv
		r.Order = append(r.Order, k)
		return nil
	}
	switch op.K {
	case "add":
		if err := t.Add(op.P, op.V); err != nil {
			r.Out = "err"
		} else {
			r.Out = "ok"
		}
	case "get":
		n := t.Get(op.P)
		switch {
		case n == nil:
			r.Out = "nil"
		case n.IsBranch():
			r.Out = "branch"
		default:
			if v := n.Value(); v == nil {
				r.Out = "empty-root"
			} else {
				r.Out = "leaf:" + strconv.Itoa(v.(int))
			}
		}
	case "glv":
		if v := t.GetLeafValue(op.P); v == nil {
			r.Out = "nil"
		} else {
			r.Out = strconv.Itoa(v.(int))
		}
	case "getleaf":
		l := t.GetLeaf(op.P)
		if l == nil {
			r.Out = "nil"
		} else {
			r.Out = "handle"
		}
		// GetLeaf on a branch path returns a handle to the branch node; like
		// the cache, the harness only ever uses handles of real leaves.
		if l != nil {
			if _, isLeaf := l.Value().(int); !isLeaf {
				l = nil
			}
		}
		if op.H < len(handles) {
			handles[op.H] = l
		}
	case "hupd":
		if l := handles[op.H]; l != nil {
			l.Update(op.V)
			r.Out = "ok"
		} else {
			r.Out = "nohandle"
		}
	case "hval":
		if l := handles[op.H]; l != nil {
			r.Out = fmt.Sprint(l.Value())
		} else {
			r.Out = "nohandle"
		}
	case "query":
		r.Set = map[string]int{}
		t.Query(op.P, visit)
		if r.Out == "" {
			r.Out = setString(r.Set, true)
		}
	case "walk":
		r.Set = map[string]int{}
		t.Walk(visit)
		if r.Out == "" {
			r.Out = setString(r.Set, true)
		}
	case "walks":
		r.Set = map[string]int{}
		t.WalkSorted(visit)
		if r.Out == "" {
			r.Out = setString(r.Set, true)
		}
	case "del", "delc":
		r.Set = map[string]int{}
		var ps [][]string
		if op.K == "del" {
			ps = t.Delete(op.P)
		} else {
			c := cond(op.V)
			ps = t.DeleteConditional(op.P, func(v interface{}) bool { iv, _ := v.(int); return c(iv) })
		}
		for _, p := range ps {
			k := key(p)
			if _, dup := r.Set[k]; dup {
				r.Out = "DUPLICATE:" + k
			}
			r.Set[k] = -1
		}
		if r.Out == "" {
			r.Out = setString(r.Set, false)
		}
	case "wdel":
		c := cond(op.V)
		var vals []int
		t.WalkDeleted(op.P, func(v interface{}) bool { iv, _ := v.(int); return c(iv) }, func(v interface{}) {
			iv, _ := v.(int)
			vals = append(vals, iv)
		})
		sort.Ints(vals)
		r.Out = fmt.Sprint(vals)
		for _, v := range vals {
			if !c(v) {
				// the value handed to the callback is not one the condition approved
				// (an update through a retained handle landed inside the delete)
				r.Out = fmt.Sprintf("UNAPPROVED:%d", v)
			}
		}
	case "children":
		ch := t.Get(op.P).Children()
		if ch == nil {
			r.Out = "nil"
		} else {
			var ks []string
			for k := range ch {
				ks = append(ks, k)
			}
			sort.Strings(ks)
			r.Out = strings.Join(ks, ",")
		}
	}
	return r
}

func (h H) Execute(x *common.Exec, s any) {
	sc := s.(*Scenario)
	if sc.Mode == "seq" {
		h.execSeq(x, sc)
		return
	}
	h.execConc(x, sc)
}

// stepModel applies r to m following the statement; returns "" or a mismatch.
// For deletes the model removes what the implementation reports, after
// checking it against the must/may sets.
func stepModel(m model, r rec) string {
	op := r.Op
	switch op.K {
	case "add":
		before := m.encode()
		want := "err"
		if m.add(op.P, op.V) {
			want = "ok"
		}
		if r.Out != want {
			return fmt.Sprintf("add: got %s want %s (content before: %s)", r.Out, want, before)
		}
	case "get":
		if want := m.get(op.P); r.Out != want {
			return fmt.Sprintf("get: got %s want %s", r.Out, want)
		}
	case "glv":
		want := "nil"
		if v, ok := m[key(op.P)]; ok {
			want = strconv.Itoa(v)
		}
		if r.Out != want {
			return fmt.Sprintf("glv: got %s want %s", r.Out, want)
		}
	case "getleaf":
		// A handle must be returned for a stored leaf and none for a path
		// that does not exist. For a path that names a branch the statement
		// is silent (the cache relies on getting a non-leaf handle there), so
		// either answer is accepted.
		switch g := m.get(op.P); {
		case strings.HasPrefix(g, "leaf:") && r.Out != "handle":
			return fmt.Sprintf("getleaf: got %s for stored leaf", r.Out)
		case g == "nil" && r.Out != "nil":
			return fmt.Sprintf("getleaf: got %s for a path that does not exist", r.Out)
		}
	case "children":
		if want := m.children(op.P); r.Out != want {
			return fmt.Sprintf("children: got %s want %s", r.Out, want)
		}
	case "query", "walk", "walks":
		if strings.HasPrefix(r.Out, "DUPLICATE") {
			return "leaf reported twice: " + r.Out
		}
		pat := op.P
		if op.K != "query" {
			pat = nil
		}
		must, may := m.sel(pat, cond(2))
		for k := range must {
			if v, ok := r.Set[k]; !ok || v != m[k] {
				return fmt.Sprintf("%s: leaf %q=%d missing or wrong in result %s", op.K, k, m[k], r.Out)
			}
		}
		for k, v := range r.Set {
			if !(must[k] || may[k]) || m[k] != v {
				return fmt.Sprintf("%s: reported %q=%d which does not match / is not stored (content %s)", op.K, k, v, m.encode())
			}
		}
		if op.K == "walks" && !sort.SliceIsSorted(r.Order, func(i, j int) bool { return lessPath(unkey(r.Order[i]), unkey(r.Order[j])) }) {
			return fmt.Sprintf("walksorted: order %v not lexicographic", r.Order)
		}
	case "del", "delc":
		if strings.HasPrefix(r.Out, "DUPLICATE") {
			return "leaf returned twice: " + r.Out
		}
		par := 2
		if op.K == "delc" {
			par = op.V
		}
		must, may := m.sel(op.P, cond(par))
		for k := range must {
			if _, ok := r.Set[k]; !ok {
				return fmt.Sprintf("%s %v: leaf %q matches but was not returned (%s)", op.K, op.P, k, r.Out)
			}
		}
		for k := range r.Set {
			if !(must[k] || may[k]) {
				return fmt.Sprintf("%s %v: returned %q which does not match / is not stored / fails the condition (content %s)", op.K, op.P, k, m.encode())
			}
		}
		for k := range r.Set {
			delete(m, k)
		}
	case "wdel":
		must, may := m.sel(op.P, cond(op.V))
		var got []int
		for _, f := range strings.Fields(strings.Trim(r.Out, "[]")) {
			v, _ := strconv.Atoi(f)
			got = append(got, v)
		}
		byVal := map[int]string{}
		for k := range must {
			byVal[m[k]] = k
		}
		for k := range may {
			byVal[m[k]] = k
		}
		seen := map[string]bool{}
		for _, v := range got {
			k, ok := byVal[v]
			if !ok || seen[k] {
				return fmt.Sprintf("wdel %v: visited value %d which is not a matching stored leaf (content %s)", op.P, v, m.encode())
			}
			seen[k] = true
		}
		for k := range must {
			if !seen[k] {
				return fmt.Sprintf("wdel %v: leaf %q matches but was not visited", op.P, k)
			}
		}
		for k := range seen {
			delete(m, k)
		}
	}
	return ""
}

func lessPath(a, b []string) bool {
	for i := 0; i < len(a) && i < len(b); i++ {
		if a[i] != b[i] {
			return a[i] < b[i]
		}
	}
	return len(a) < len(b)
}

func hashStr(s string) uint64 {
	h := fnv.New64a()
	h.Write([]byte(s))
	return h.Sum64()
}

func (H) execSeq(x *common.Exec, sc *Scenario) {
	t := &ctree.Tree{}
	m := model{}
	handles := make([]*ctree.Leaf, 4)
	done := false
	x.R.Go("seq", func() {
		for i, op := range sc.Tasks[0] {
			// Differential: a delete must remove exactly what a query for
			// the same path reports on the same state.
			var q rec
			isDel := op.K == "del" || op.K == "delc" || op.K == "wdel"
			if isDel {
				q = apply(t, Op{K: "query", P: op.P}, handles)
			}
			r := apply(t, op, handles)
			if isDel && op.K != "wdel" {
				par := 2
				if op.K == "delc" {
					par = op.V
				}
				c := cond(par)
				want := map[string]int{}
				for k, v := range q.Set {
					if c(v) {
						want[k] = -1
					}
				}
				x.Oblige(1)
				if setString(want, false) != setString(r.Set, false) {
					x.Violate("C09/delete-vs-query", "op %d %s %v: delete returned {%s} but query reports {%s} (condition parity %d)\ncontent: %s", i, op.K, op.P, setString(r.Set, false), q.Out, par, m.encode())
				}
			}
			x.Oblige(1)
			if msg := stepModel(m, r); msg != "" {
				x.Violate("C09/"+op.K, "op %d: %s\nops so far: %v", i, msg, sc.Tasks[0][:i+1])
				break
			}
			// Full content after every operation.
			w := apply(t, Op{K: "walk"}, handles)
			x.Oblige(1)
			if w.Out != m.encode() {
				x.Violate("C09/content-after-"+op.K, "op %d %s %v: tree content {%s} != model {%s}", i, op.K, op.P, w.Out, m.encode())
				break
			}
		}
		done = true
	})
	out := x.R.Schedule(false, nil)
	x.R.AcquireEnd()
	if out != simrt.AllDone || !done {
		x.Violate("C09/stuck", "sequential run did not finish: %v %s", out, x.R.Summary())
	}
	x.NonTrivial = len(sc.Tasks[0]) >= 2
	x.StateHash = hashStr(m.encode())
}

func (H) execConc(x *common.Exec, sc *Scenario) {
	t := &ctree.Tree{}
	nt := len(sc.Tasks)
	hist := make([][]rec, nt)
	for i := range sc.Tasks {
		i := i
		ops := sc.Tasks[i]
		x.R.Go(fmt.Sprintf("w%d", i), func() {
			handles := make([]*ctree.Leaf, 4)
			for _, op := range ops {
				inv := simrt.Stamp()
				r := apply(t, op, handles)
				r.Inv, r.Ret, r.Task = inv, simrt.Stamp(), i
				hist[i] = append(hist[i], r)
			}
		})
	}
	out := x.R.Schedule(false, nil)
	x.R.AcquireEnd()
	switch out {
	case simrt.StepLimit:
		x.Inconclusive = "step-limit"
		return
	case simrt.Quiescent:
		x.Oblige(1)
		x.Violate("C10/deadlock", "tree operations blocked forever: %s", x.R.Summary())
		return
	}
	// Final content, read by one task after everything returned.
	var final rec
	x.R.Go("final", func() {
		inv := simrt.Stamp()
		final = apply(t, Op{K: "walk"}, nil)
		final.Inv, final.Ret, final.Task = inv, simrt.Stamp(), nt
	})
	if x.R.Schedule(true, nil) != simrt.AllDone {
		x.Violate("C10/deadlock", "final walk blocked: %s", x.R.Summary())
		return
	}
	x.R.AcquireEnd()
	var all []rec
	for _, h := range hist {
		all = append(all, h...)
	}
	x.NonTrivial = nt >= 2 && len(all) >= 3
	x.StateHash = hashStr(final.Out)
	// adverse interleavings that actually occurred: operations of different
	// tasks whose [invoke, return] intervals overlap, by kind of pair
	for i, a := range all {
		for _, b := range all[i+1:] {
			if a.Task != b.Task && a.Inv < b.Ret && b.Inv < a.Ret {
				k1, k2 := a.Op.K, b.Op.K
				if k2 < k1 {
					k1, k2 = k2, k1
				}
				x.Fault("overlap:" + k1 + "/" + k2)
			}
		}
	}
	for _, r := range all {
		if strings.HasPrefix(r.Out, "DUPLICATE") {
			x.Violate("C10/duplicate-report", "%v", r)
		}
		if strings.HasPrefix(r.Out, "UNAPPROVED") {
			x.Violate("C10/delete-removed-unapproved-value", "a conditional delete removed a value its condition did not approve: %v", r)
		}
	}
	if sc.Mode == "handles" {
		checkHandles(x, all, final)
		return
	}
	checkWindows(x, all)
	all = append(all, final)
	x.Post = append(x.Post, func(x *common.Exec) { checkLinearizable(x, all) })
}

// checkHandles: with retained leaf handles in play only sanity is asserted:
// every value read anywhere was written by somebody.
func checkHandles(x *common.Exec, all []rec, final rec) {
	written := map[int]bool{}
	for _, r := range all {
		if r.Op.K == "add" || r.Op.K == "hupd" {
			written[r.Op.V] = true
		}
	}
	chk := func(r rec) {
		for k, v := range r.Set {
			if v >= 0 && !written[v] {
				x.Violate("C10/invented-value", "%v reports %s=%d which nobody wrote", r, k, v)
			}
		}
	}
	for _, r := range all {
		x.Oblige(1)
		chk(r)
	}
	chk(final)
}

// checkWindows evaluates the query clauses of C10 on invoke/return stamps.
func checkWindows(x *common.Exec, all []rec) {
	isDel := func(k string) bool { return k == "del" || k == "delc" || k == "wdel" }
	for _, q := range all {
		if q.Op.K != "query" && q.Op.K != "walk" && q.Op.K != "walks" {
			continue
		}
		pat := q.Op.P
		if q.Op.K != "query" {
			pat = nil
		}
		if q.Op.K == "walks" {
			x.Oblige(1)
			if !sort.SliceIsSorted(q.Order, func(i, j int) bool { return lessPath(unkey(q.Order[i]), unkey(q.Order[j])) }) {
				x.Violate("C10/sorted-walk-out-of-order", "%v visited the leaves in the order %v, which is not lexicographic", q, q.Order)
			}
		}
		// must: present for the whole duration.
		for _, a := range all {
			if a.Op.K != "add" || a.Out != "ok" || a.Ret >= q.Inv {
				continue
			}
			if match(pat, a.Op.P) != mustMatch {
				continue
			}
			threatened := false
			for _, d := range all {
				if d.Ret > a.Inv && d.Inv < q.Ret {
					if isDel(d.Op.K) && match(d.Op.P, a.Op.P) != noMatch {
						threatened = true
					}
					// An add that replaces an ancestor/descendant cannot
					// succeed while the leaf exists, so only deletes threaten.
				}
			}
			if threatened {
				continue
			}
			x.Oblige(1)
			if _, ok := q.Set[key(a.Op.P)]; !ok {
				x.Violate("C10/query-missed-present-leaf", "%v\nmisses leaf %v added by %v and never deleted meanwhile", q, a.Op.P, a)
			}
		}
		// must-not: absent (or holding another value) for the whole duration.
		for k, v := range q.Set {
			x.Oblige(1)
			if match(pat, unkey(k)) == noMatch {
				x.Violate("C10/query-reported-nonmatching", "%v reports %s", q, k)
				continue
			}
			var src *rec
			for i := range all {
				a := &all[i]
				if a.Op.K == "add" && a.Out == "ok" && a.Op.V == v && key(a.Op.P) == k {
					src = a
				}
			}
			if src == nil || src.Inv >= q.Ret {
				x.Violate("C10/query-invented", "%v reports %s=%d which no add issued before the query ended wrote", q, k, v)
				continue
			}
			for _, d := range all {
				if !(src.Ret < d.Inv && d.Ret < q.Inv) {
					continue
				}
				if (d.Op.K == "del" || d.Op.K == "delc") && hasKey(d.Set, k) {
					x.Violate("C10/query-reported-deleted", "%v reports %s=%d although %v removed it after %v and before the query began", q, k, v, d, *src)
				}
				if d.Op.K == "add" && d.Out == "ok" && key(d.Op.P) == k {
					x.Violate("C10/query-reported-stale", "%v reports %s=%d although %v overwrote it before the query began", q, k, v, d)
				}
			}
		}
	}
}

func hasKey(m map[string]int, k string) bool { _, ok := m[k]; return ok }

func checkLinearizable(x *common.Exec, all []rec) {
	var ops []porcupine.Operation
	for _, r := range all {
		if r.Op.K == "query" {
			continue // not atomic; covered by checkWindows
		}
		if (r.Op.K == "walk" || r.Op.K == "walks") && r.Inv < maxRet(all, r) {
			continue // concurrent walk: window clauses only
		}
		ops = append(ops, porcupine.Operation{ClientId: r.Task, Input: r, Call: r.Inv, Output: r.Out, Return: r.Ret})
	}
	m := porcupine.Model{
		Init: func() interface{} { return "" },
		Step: func(state, in, out interface{}) (bool, interface{}) {
			mm := decode(state.(string))
			r := in.(rec)
			if msg := stepModel(mm, r); msg != "" {
				return false, state
			}
			return true, mm.encode()
		},
	}
	x.Oblige(1)
	res := porcupine.CheckOperationsTimeout(m, ops, 20*time.Second)
	switch res {
	case porcupine.Illegal:
		var sb strings.Builder
		sort.Slice(all, func(i, j int) bool { return all[i].Inv < all[j].Inv })
		for _, r := range all {
			sb.WriteString(r.String() + "\n")
		}
		x.Violate("C10/not-linearizable", "history of point operations, deletes and the final content has no sequential explanation:\n%s", sb.String())
	case porcupine.Unknown:
		x.Inconclusive = "porcupine-timeout"
	}
}

// maxRet returns the largest return stamp among operations other than r.
func maxRet(all []rec, r rec) int64 {
	var m int64
	for _, o := range all {
		if o.Inv != r.Inv && o.Ret > m {
			m = o.Ret
		}
	}
	return m
}
