//go:build go1.25

// Package coalesceh is the harness for the coalescing queue (C11).
package coalesceh

import (
	"context"
	"encoding/json"
	"fmt"
	"hash/fnv"
	"sort"
	"strconv"
	"strings"
	"time"

	"github.com/anishathalye/porcupine"
	"github.com/openconfig/gnmi/coalesce"
	"github.com/openconfig/gnmi/zzverif/harness/common"
	"github.com/openconfig/gnmi/zzverif/simrt"
)

// Op is one queue operation: ins <item>, close, cancel, len, isclosed.
type Op struct {
	K string `json:"k"`
	I int    `json:"i,omitempty"`
}

// Scenario: producer/closer/canceller/observer tasks plus one consumer.
type Scenario struct {
	Tasks    [][]Op `json:"tasks"`
	MaxNext  int    `json:"max_next"` // consumer stops after this many successful Next calls (0 = until error)
	Consumer bool   `json:"consumer"`
}

type H struct{}

func (H) Name() string { return "coalesce" }

func (H) Decode(b []byte) (any, error) {
	s := &Scenario{}
	return s, json.Unmarshal(b, s)
}

func (H) Generate(rng *simrt.Rand, prop, tier string) (any, simrt.Config) {
	cfg := simrt.RandomConfig(rng)
	sc := &Scenario{Consumer: rng.Chance(0.95)}
	items := 2 + rng.Intn(3)
	np := 1 + rng.Intn(4)
	budget := 10 + rng.Intn(22)
	closed := false
	for p := 0; p < np; p++ {
		n := 1 + rng.Intn(1+budget/np)
		var ops []Op
		for i := 0; i < n; i++ {
			switch rng.Pick(20, 2, 2) {
			case 0:
				ops = append(ops, Op{K: "ins", I: rng.Intn(items)})
			case 1:
				ops = append(ops, Op{K: "len"})
			case 2:
				ops = append(ops, Op{K: "isclosed"})
			}
		}
		// The ONCE path of the server: insert everything, then close.
		if !closed && rng.Chance(0.3) {
			ops = append(ops, Op{K: "close"})
			closed = true
			if rng.Chance(0.3) {
				ops = append(ops, Op{K: "ins", I: rng.Intn(items)})
			}
		}
		sc.Tasks = append(sc.Tasks, ops)
	}
	if !closed && rng.Chance(0.6) {
		var ops []Op
		for i := rng.Intn(4); i > 0; i-- {
			ops = append(ops, Op{K: "len"})
		}
		ops = append(ops, Op{K: "close"})
		if rng.Chance(0.2) {
			ops = append(ops, Op{K: "close"})
		}
		sc.Tasks = append(sc.Tasks, ops)
	}
	if rng.Chance(0.3) {
		var ops []Op
		for i := rng.Intn(4); i > 0; i-- {
			ops = append(ops, Op{K: "isclosed"})
		}
		sc.Tasks = append(sc.Tasks, append(ops, Op{K: "cancel"}))
	}
	if rng.Chance(0.15) {
		sc.MaxNext = 1 + rng.Intn(5)
	}
	return sc, cfg
}

func (H) Shrinks(s any) []any {
	sc := s.(*Scenario)
	var out []any
	clone := func() *Scenario {
		c := &Scenario{MaxNext: sc.MaxNext, Consumer: sc.Consumer}
		for _, t := range sc.Tasks {
			c.Tasks = append(c.Tasks, append([]Op(nil), t...))
		}
		return c
	}
	if len(sc.Tasks) > 1 {
		for i := range sc.Tasks {
			c := clone()
			c.Tasks = append(c.Tasks[:i], c.Tasks[i+1:]...)
			out = append(out, c)
		}
	}
	for i, t := range sc.Tasks {
		if len(t) >= 4 {
			c := clone()
			c.Tasks[i] = c.Tasks[i][len(t)/2:]
			out = append(out, c)
			c = clone()
			c.Tasks[i] = c.Tasks[i][:len(t)/2]
			out = append(out, c)
		}
	}
	for i, t := range sc.Tasks {
		for j := range t {
			c := clone()
			c.Tasks[i] = append(c.Tasks[i][:j], c.Tasks[i][j+1:]...)
			out = append(out, c)
		}
	}
	return out
}

type rec struct {
	Task     int
	Op       Op
	Inv, Ret int64
	Out      string // ins: fresh|dup|err ; next: item:<i>:<dup> | closed | ctx ; len: n ; isclosed: bool ; close/cancel: ok
}

func (r rec) String() string {
	return fmt.Sprintf("t%d %s(%d) [%d,%d] -> %s", r.Task, r.Op.K, r.Op.I, r.Inv, r.Ret, r.Out)
}

// state encoding: "<closed 0/1>|i:c,i:c,..."
type qstate struct {
	closed bool
	items  []int
	counts []int
}

func decode(s string) qstate {
	var q qstate
	q.closed = s[0] == '1'
	for _, f := range strings.Split(s[2:], ",") {
		if f == "" {
			continue
		}
		var i, c int
		fmt.Sscanf(f, "%d:%d", &i, &c)
		q.items = append(q.items, i)
		q.counts = append(q.counts, c)
	}
	return q
}

func (q qstate) encode() string {
	var sb strings.Builder
	if q.closed {
		sb.WriteString("1|")
	} else {
		sb.WriteString("0|")
	}
	for k := range q.items {
		fmt.Fprintf(&sb, "%d:%d,", q.items[k], q.counts[k])
	}
	return sb.String()
}

// step is the sequential specification written from the statement. An Insert
// that is linearised after Close may still be accepted (it raced with Close:
// the statement only covers insertions that completed before the close);
// insertions invoked after Close returned are checked separately on stamps.
func step(state string, r rec) (bool, string) {
	q := decode(state)
	switch r.Op.K {
	case "ins":
		if r.Out == "err" {
			return q.closed, state
		}
		for k, it := range q.items {
			if it == r.Op.I {
				if r.Out != "dup" {
					return false, state
				}
				q.counts[k]++
				return true, q.encode()
			}
		}
		if r.Out != "fresh" {
			return false, state
		}
		q.items = append(q.items, r.Op.I)
		q.counts = append(q.counts, 0)
		return true, q.encode()
	case "next":
		switch {
		case r.Out == "ctx":
			return true, state
		case r.Out == "closed":
			return q.closed && len(q.items) == 0, state
		default:
			var i, d int
			fmt.Sscanf(r.Out, "item:%d:%d", &i, &d)
			if len(q.items) == 0 || q.items[0] != i || q.counts[0] != d {
				return false, state
			}
			q.items, q.counts = q.items[1:], q.counts[1:]
			return true, q.encode()
		}
	case "close":
		q.closed = true
		return true, q.encode()
	case "len":
		return r.Out == strconv.Itoa(len(q.items)), state
	case "isclosed":
		return r.Out == strconv.FormatBool(q.closed), state
	case "cancel":
		return true, state
	}
	return false, state
}

func (H) Execute(x *common.Exec, s any) {
	sc := s.(*Scenario)
	q := coalesce.NewQueue()
	ctx, cancel := context.WithCancel(context.Background())
	defer cancel()
	nt := len(sc.Tasks)
	hist := make([][]rec, nt+1)
	var cancelInv, closeRet int64 // stamps (0 = never)
	for i := range sc.Tasks {
		i := i
		x.R.Go(fmt.Sprintf("p%d", i), func() {
			for _, op := range sc.Tasks[i] {
				r := rec{Task: i, Op: op, Inv: simrt.Stamp()}
				switch op.K {
				case "ins":
					fresh, err := q.Insert(op.I)
					switch {
					case err != nil:
						r.Out = "err"
						if !coalesce.IsClosedQueue(err) {
							r.Out = "err-other"
						}
					case fresh:
						r.Out = "fresh"
					default:
						r.Out = "dup"
					}
				case "close":
					q.Close()
					r.Out = "ok"
				case "cancel":
					if cancelInv == 0 {
						cancelInv = r.Inv
					}
					cancel()
					r.Out = "ok"
				case "len":
					r.Out = strconv.Itoa(q.Len())
				case "isclosed":
					r.Out = strconv.FormatBool(q.IsClosed())
				}
				r.Ret = simrt.Stamp()
				if op.K == "close" && closeRet == 0 {
					closeRet = r.Ret
				}
				hist[i] = append(hist[i], r)
			}
		})
	}
	var consumer *simrt.Task
	consumerEnd := ""
	if sc.Consumer {
		consumer = x.R.GoDaemon("consumer", func() {
			n := 0
			for {
				r := rec{Task: nt, Op: Op{K: "next"}, Inv: simrt.Stamp()}
				it, dup, err := q.Next(ctx)
				switch {
				case err == nil:
					r.Out = fmt.Sprintf("item:%d:%d", it.(int), dup)
				case coalesce.IsClosedQueue(err):
					r.Out = "closed"
				case err == context.Canceled:
					r.Out = "ctx"
				default:
					r.Out = "err:" + err.Error()
				}
				r.Ret = simrt.Stamp()
				hist[nt] = append(hist[nt], r)
				if err != nil {
					consumerEnd = r.Out
					return
				}
				n++
				if sc.MaxNext > 0 && n >= sc.MaxNext {
					consumerEnd = "max"
					return
				}
			}
		})
	}
	out := x.R.Schedule(false, nil)
	x.R.AcquireEnd()
	if out == simrt.StepLimit {
		x.Inconclusive = "step-limit"
		return
	}
	if u := x.R.Unfinished(); len(u) > 0 {
		x.Violate("C11/producer-stuck", "Insert/Close/Len blocked forever: %v", u)
		return
	}
	var all []rec
	for _, h := range hist {
		all = append(all, h...)
	}
	x.NonTrivial = nt >= 1 && sc.Consumer && len(all) >= 3
	for _, r := range all {
		switch r.Op.K {
		case "close":
			x.Fault("queue-closed-concurrently")
		case "cancel":
			x.Fault("consumer-context-cancelled")
		case "ins":
			if r.Out == "err" {
				x.Fault("insert-after-close")
			}
		}
	}
	// Lost wake-up: the consumer is still waiting although something is
	// pending, the queue is closed, or its context is cancelled.
	if consumer != nil && !x.R.TaskDone(consumer) {
		x.Oblige(1)
		pending := 0
		done := false
		x.R.Go("probe", func() { pending = q.Len(); done = true })
		x.R.Schedule(true, nil)
		x.R.AcquireEnd()
		if !done {
			x.Violate("C11/len-stuck", "Len blocked")
			return
		}
		switch {
		case pending > 0:
			x.Violate("C11/lost-wakeup/pending-items", "consumer blocked in Next with %d item(s) queued: %s\n%s", pending, x.R.TaskState(consumer), histString(all))
		case closeRet != 0:
			x.Violate("C11/lost-wakeup/closed", "consumer blocked in Next although Close returned (stamp %d): %s\n%s", closeRet, x.R.TaskState(consumer), histString(all))
		case cancelInv != 0:
			x.Violate("C11/lost-wakeup/cancelled", "consumer blocked in Next although its context was cancelled: %s\n%s", x.R.TaskState(consumer), histString(all))
		}
		// The blocked Next has no response: it took no effect, so it is
		// simply absent from the history.
	}
	// Stamp clauses.
	for _, r := range all {
		x.Oblige(1)
		switch {
		case r.Op.K == "ins" && closeRet != 0 && r.Inv > closeRet && r.Out != "err":
			x.Violate("C11/insert-after-close-accepted", "%v accepted although Close had returned at %d\n%s", r, closeRet, histString(all))
		case r.Op.K == "ins" && r.Out == "err-other":
			x.Violate("C11/insert-error", "%v", r)
		case r.Op.K == "next" && r.Out == "ctx" && (cancelInv == 0 || cancelInv > r.Ret):
			x.Violate("C11/spurious-ctx-error", "%v returned a context error before any cancellation (cancel at %d)", r, cancelInv)
		case r.Op.K == "next" && strings.HasPrefix(r.Out, "err:"):
			x.Violate("C11/next-error", "%v", r)
		}
	}
	h := fnv.New64a()
	h.Write([]byte(consumerEnd))
	for _, r := range hist[nt] {
		h.Write([]byte(r.Out))
	}
	x.StateHash = h.Sum64()
	x.Post = append(x.Post, func(x *common.Exec) { checkLin(x, all) })
}

func histString(all []rec) string {
	sort.Slice(all, func(i, j int) bool { return all[i].Inv < all[j].Inv })
	var sb strings.Builder
	for _, r := range all {
		sb.WriteString(r.String() + "\n")
	}
	return sb.String()
}

func checkLin(x *common.Exec, all []rec) {
	var ops []porcupine.Operation
	for _, r := range all {
		ops = append(ops, porcupine.Operation{ClientId: r.Task, Input: r, Call: r.Inv, Output: r.Out, Return: r.Ret})
	}
	m := porcupine.Model{
		Init: func() interface{} { return "0|" },
		Step: func(state, in, out interface{}) (bool, interface{}) {
			ok, ns := step(state.(string), in.(rec))
			return ok, ns
		},
	}
	x.Oblige(1)
	switch porcupine.CheckOperationsTimeout(m, ops, 20*time.Second) {
	case porcupine.Illegal:
		x.Violate("C11/not-linearizable", "no sequential FIFO-with-coalescing explanation (order of first pending insertion, exact duplicate counts, closed only when drained):\n%s", histString(all))
	case porcupine.Unknown:
		x.Inconclusive = "porcupine-timeout"
	}
}
