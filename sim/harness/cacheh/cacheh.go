//go:build go1.25

// Package cacheh is the harness for the cache: C02 (timestamp discipline),
// C03 (change feed), C14 (reset/remove/isolation) and C15 (counters, latency,
// refresh races). One task per target plays that target's update stream and
// lifecycle calls (one update stream per target, as in the collector); a clock
// task moves the collector's clock; refresh tasks run UpdateMetadata and
// UpdateSize. Everything is recorded and judged after the run by replaying
// each target's operations through cachemodel.
package cacheh

import (
	"encoding/json"
	"errors"
	"fmt"
	"hash/fnv"
	"sort"
	"strings"
	"sync/atomic"
	"time"

	"github.com/openconfig/gnmi/cache"
	"github.com/openconfig/gnmi/ctree"
	"github.com/openconfig/gnmi/latency"
	"github.com/openconfig/gnmi/metadata"
	pb "github.com/openconfig/gnmi/proto/gnmi"
	"github.com/openconfig/gnmi/zzverif/gen"
	"github.com/openconfig/gnmi/zzverif/harness/common"
	"github.com/openconfig/gnmi/zzverif/model/cachemodel"
	"github.com/openconfig/gnmi/zzverif/simrt"
	"google.golang.org/protobuf/proto"
)

// Op is one step of a target's stream.
type Op struct {
	K string    `json:"k"` // upd reset remove add sync connect connerr qall clk meta size
	N *gen.Noti `json:"n,omitempty"`
	V int64     `json:"v,omitempty"` // clk: new clock value
}

// Scenario for the cache harness.
type Scenario struct {
	Opts    cachemodel.Opts `json:"opts"`
	Targets []string        `json:"targets"`
	Streams [][]Op          `json:"streams"` // Streams[i] belongs to Targets[i]
	Clock0  int64           `json:"clock0"`
	// ClockMode: frozen (every reading equal until the clock task moves it),
	// advancing (every reading strictly greater than the previous one; the
	// clock task only jumps forwards), jumpy (clock task jumps both ways).
	ClockMode string   `json:"clock_mode"`
	Clock     []Op     `json:"clock,omitempty"`   // clock task
	Refresh   []Op     `json:"refresh,omitempty"` // refresh task (meta / size)
	Readers   int      `json:"readers,omitempty"` // tasks issuing Query(*,[*]) a few times
	Latency   []string `json:"latency,omitempty"`
	LatPerNs  int64    `json:"lat_period_ns,omitempty"`
	// LatWin (C15): the cache is built with latency windows (Latency, multiples
	// of LatPerNs) and the metadata refreshes are issued by the target's own
	// stream task ("refresh" ops in the stream, one target only), so that what
	// the cache feeds into the latency statistics can be judged: every exported
	// minimum / maximum is a latency some post-sync update of that target
	// really had.
	LatWin bool `json:"lat_win,omitempty"`
	// Second phase, after the streams are done: lifecycle calls raced on the
	// same targets - one resetter task per target (Resets[target] calls of
	// Reset) against one admin task that removes and re-adds targets. These
	// are the calls the cache itself serialises (Reset holds the cache lock
	// that Remove and Add take exclusively); updates are not raced against a
	// Remove of their own target (see DESIGN 5.1).
	Resets map[string]int `json:"race_resets,omitempty"`
	Admin  []AdminOp      `json:"race_admin,omitempty"`
	// Readd: targets that a second configuration goroutine (one per target)
	// adds again (and writes one leaf to) as soon as it sees that the target is
	// gone, while the admin task's Remove of it may still be under way. Nothing
	// else touches such a target in the second phase (one Remove, no Reset), so
	// every order of the calls is a legal history.
	Readd []string `json:"race_readd,omitempty"`
}

// AdminOp is one call of the admin task of the second phase.
type AdminOp struct {
	K      string `json:"k"` // remove | add
	Target string `json:"target"`
}

type H struct{}

func (H) Name() string { return "cache" }

// RaceProperty: unsynchronised access between the update stream and the
// refresh tasks is what C15 states; every race found in this harness is
// reported under C15.
func (H) RaceProperty(prop string) string { return "C15" }

func (H) Decode(b []byte) (any, error) {
	s := &Scenario{}
	return s, json.Unmarshal(b, s)
}

// ---------------------------------------------------------------- generation

func GenNoti(rng *simrt.Rand, u *gen.Universe, target string, tsLo, tsHi int64, small bool, share bool) *gen.Noti {
	n := &gen.Noti{Target: target, TS: tsLo + int64(rng.Intn(int(tsHi-tsLo+1)))}
	full := u.Leaves[rng.Intn(len(u.Leaves))]
	if rng.Chance(0.1) {
		full = gen.RandElems(rng, 4, 0)
	}
	// A fixed split and origin per pool leaf keeps one leaf in one
	// representation most of the time; sometimes vary on purpose.
	h := fnv.New32a()
	fmt.Fprint(h, full)
	hs := int(h.Sum32())
	cut := hs % (len(full) + 1)
	n.Origin = u.Origins[(hs/7)%len(u.Origins)]
	if rng.Chance(0.08) {
		cut = rng.Intn(len(full) + 1)
	}
	n.Prefix = append([]gen.Elem(nil), full[:cut]...)
	rest := append([]gen.Elem(nil), full[cut:]...)
	if share && rng.Chance(0.6) {
		n.SharePfx = 1
	}
	kind := rng.Pick(50, 14, 12, 18, 3)
	if len(rest) == 0 && kind != 2 {
		// Nothing left for a path. Half of the time the leaf is named by the
		// prefix alone (an update or a delete with an empty path of its own),
		// otherwise it becomes an atomic container at the prefix.
		if len(n.Prefix) > 0 && (kind == 0 || kind == 3) && rng.Chance(0.5) {
			// keep kind: single update / delete with an empty path
		} else {
			kind = 2
			if len(n.Prefix) == 0 {
				n.Prefix = full
			}
		}
	}
	switch kind {
	case 0: // single update
		n.Ups = []gen.Upd{{Path: rest, Val: gen.RandVal(rng, small), DeprPath: (hs/3)%11 == 0}}
	case 1: // multi update (+ deletes)
		for i := 1 + rng.Intn(3); i > 0; i-- {
			p := rest
			if rng.Chance(0.6) {
				p = gen.RandElems(rng, 3, 0)
			}
			n.Ups = append(n.Ups, gen.Upd{Path: p, Val: gen.RandVal(rng, small)})
		}
		for i := rng.Intn(3); i > 0; i-- {
			// deletes that travel with updates: mostly aimed at leaves that
			// exist (this pool leaf, its parent, another pool leaf below the
			// same prefix, everything below the prefix)
			var d []gen.Elem
			switch rng.Pick(3, 3, 2, 3, 2) {
			case 0:
				d = gen.RandElems(rng, 3, 0.3)
			case 1:
				d = rest
			case 2:
				if len(rest) > 1 {
					d = rest[:len(rest)-1]
				} else {
					d = []gen.Elem{{N: "*"}}
				}
			case 3:
				other := u.Leaves[rng.Intn(len(u.Leaves))]
				if len(other) > cut && gen.Key(gen.Index(gen.Path(other[:cut], false, 0))) == gen.Key(gen.Index(gen.Path(full[:cut], false, 0))) {
					d = other[cut:]
				} else {
					d = []gen.Elem{{N: "*"}}
				}
			case 4:
				d = []gen.Elem{{N: "*"}}
			}
			if len(d) == 0 {
				d = []gen.Elem{{N: "*"}}
			}
			n.Dels = append(n.Dels, append([]gen.Elem(nil), d...))
		}
	case 2: // atomic container at the prefix
		n.Atomic = true
		if len(n.Prefix) == 0 {
			n.Prefix = full[:1]
		}
		for i := 1 + rng.Intn(3); i > 0; i-- {
			n.Ups = append(n.Ups, gen.Upd{Path: gen.RandElems(rng, 2, 0), Val: gen.RandVal(rng, small)})
		}
	case 3: // delete
		d := rest
		switch rng.Pick(4, 3, 2, 2) {
		case 1: // subtree
			if len(d) > 1 {
				d = d[:len(d)-1]
			}
		case 2: // glob somewhere
			d = append([]gen.Elem(nil), d...)
			if len(d) > 0 {
				d[rng.Intn(len(d))] = gen.Elem{N: "*"}
			}
		case 3:
			d = gen.RandElems(rng, 3, 0.4)
		}
		if len(d) == 0 && len(n.Prefix) == 0 && n.Origin == "" {
			d = []gen.Elem{{N: "*"}}
		}
		n.Dels = [][]gen.Elem{d}
		n.DelDepr = rng.Chance(0.1)
	case 4: // empty
	}
	return n
}

// GenStreams draws one operation list per target of u.
func GenStreams(rng *simrt.Rand, u *gen.Universe, prop string, lifecycle, small, share bool, maxOps int) [][]Op {
	return GenStreamsR(rng, u, prop, lifecycle, false, small, share, maxOps)
}

// GenStreamsR is GenStreams with an optional sprinkling of Reset calls alone
// (resetOnly): the reconnection of a target is part of every update history,
// whatever the collector's clock does, and the statement of C02 speaks of the
// latest timestamp accepted - which a Reset forgets.
func GenStreamsR(rng *simrt.Rand, u *gen.Universe, prop string, lifecycle, resetOnly, small, share bool, maxOps int) [][]Op {
	return GenStreamsC(rng, u, prop, lifecycle, resetOnly, small, share, maxOps, 0)
}

// GenStreamsC is GenStreamsR with creeping timestamps (creep > 0 = the future
// threshold): bursts of single updates to one leaf whose timestamps run ahead
// of the collector's clock in steps no larger than the threshold, each of
// them acceptable only because it is close enough to the latest accepted
// timestamp - with values from a small set, so that some of them leave the
// value unchanged (and are suppressed, yet accepted).
func GenStreamsC(rng *simrt.Rand, u *gen.Universe, prop string, lifecycle, resetOnly, small, share bool, maxOps int, creep int64) [][]Op {
	var streams [][]Op
	for _, tg := range u.Targets {
		var ops []Op
		removed := false
		sinceReset := 99
		// leaves this stream has written so far (full path, origin, value): a
		// target that re-sends part of its state in one notification refreshes
		// some leaves with the value they already hold and changes others
		type sent struct {
			full   []gen.Elem
			origin string
			val    gen.Val
		}
		var hist []sent
		creepTS := int64(0)
		remember := func(nt *gen.Noti) {
			if nt.Atomic {
				return
			}
			for _, up := range nt.Ups {
				if up.Origin != "" || up.NilPath {
					continue
				}
				full := append(append([]gen.Elem(nil), nt.Prefix...), up.Path...)
				if len(full) > 0 {
					hist = append(hist, sent{full, nt.Origin, up.Val})
				}
			}
			if len(hist) > 12 {
				hist = hist[len(hist)-12:]
			}
		}
		n := 1 + rng.Intn(maxOps)
		if prop == "C02" && rng.Chance(0.3) {
			n = 40 + rng.Intn(20)
		}
		for i := 0; i < n; i++ {
			if removed {
				if rng.Chance(0.5) {
					ops = append(ops, Op{K: "add"})
					removed = false
				} else {
					ops = append(ops, Op{K: "upd", N: GenNoti(rng, u, tg, 90, 140, small, share)})
				}
				continue
			}
			if lifecycle {
				switch rng.Pick(40, 4, 2, 3, 3, 2) {
				case 1:
					ops = append(ops, Op{K: "reset"})
					continue
				case 2:
					ops = append(ops, Op{K: "remove"})
					removed = true
					continue
				case 3:
					ops = append(ops, Op{K: "sync"})
					continue
				case 4:
					ops = append(ops, Op{K: "connect"})
					continue
				case 5:
					ops = append(ops, Op{K: "connerr"})
					continue
				}
			}
			if resetOnly && rng.Chance(0.12) {
				ops = append(ops, Op{K: "reset"})
				sinceReset = 0
				continue
			}
			if resetOnly && sinceReset < 3 {
				// a target that comes back with a corrected clock: low timestamps
				// right after the reset, so that the updates which follow are far
				// ahead of everything accepted since
				sinceReset++
				ops = append(ops, Op{K: "upd", N: GenNoti(rng, u, tg, 90, 99, small, share)})
				continue
			}
			if resetOnly && sinceReset < 6 {
				sinceReset++
				ops = append(ops, Op{K: "upd", N: GenNoti(rng, u, tg, 118, 140, small, share)})
				continue
			}
			if prop == "C12" && rng.Chance(0.5) {
				ops = append(ops, Op{K: "upd", N: gen.HostileNoti(rng, u, tg, 90+int64(rng.Intn(50)))})
				continue
			}
			if creep > 0 && len(hist) >= 1 && rng.Chance(0.15) {
				h := hist[rng.Intn(len(hist))]
				if creepTS == 0 {
					creepTS = 118 + int64(rng.Intn(12))
				}
				for k := 2 + rng.Intn(3); k > 0; k-- {
					creepTS += int64(rng.Intn(int(creep) + 2)) // sometimes one step too far
					v := h.val
					if rng.Chance(0.4) {
						v = gen.RandVal(rng, true)
					}
					ops = append(ops, Op{K: "upd", N: &gen.Noti{Target: tg, Origin: h.origin, TS: creepTS,
						Ups: []gen.Upd{{Path: append([]gen.Elem(nil), h.full...), Val: v}}}})
				}
				continue
			}
			if len(hist) >= 2 && rng.Chance(0.1) {
				// a partial re-send: several leaves written before, in one
				// notification with a recent timestamp, most with the value they
				// were last sent with
				first := hist[rng.Intn(len(hist))]
				nt := &gen.Noti{Target: tg, Origin: first.origin, TS: 125 + int64(rng.Intn(16))}
				for i := 1 + rng.Intn(3); i > 0; i-- { // one update: a heartbeat re-send of a single leaf
					h := hist[rng.Intn(len(hist))]
					if i > 1 && rng.Chance(0.5) {
						h = first
					}
					v := h.val
					if rng.Chance(0.35) {
						v = gen.RandVal(rng, small)
					}
					nt.Ups = append(nt.Ups, gen.Upd{Path: append([]gen.Elem(nil), h.full...), Val: v})
				}
				if rng.Chance(0.5) {
					nt.Ups[0], nt.Ups[len(nt.Ups)-1] = nt.Ups[len(nt.Ups)-1], nt.Ups[0]
				}
				ops = append(ops, Op{K: "upd", N: nt})
				continue
			}
			nt := GenNoti(rng, u, tg, 90, 140, small, share)
			remember(nt)
			ops = append(ops, Op{K: "upd", N: nt})
		}
		streams = append(streams, ops)
	}
	return streams
}

func (H) Generate(rng *simrt.Rand, prop, tier string) (any, simrt.Config) {
	cfg := simrt.RandomConfig(rng)
	nt := 1 + rng.Pick(5, 4, 2)
	if prop == "C14" {
		nt = 2 + rng.Intn(3)
	}
	u := gen.NewUniverse(rng, nt)
	sc := &Scenario{Targets: u.Targets, Clock0: 100 + int64(rng.Intn(20))}
	sc.Opts.EventDriven = rng.Chance(0.6)
	switch rng.Pick(4, 3, 2) {
	case 1:
		sc.Opts.FutureNs = 1 + int64(rng.Intn(6))
	case 2:
		sc.Opts.FutureNs = 1000
	}
	small := rng.Chance(0.5)
	share := prop == "C03" || rng.Chance(0.3)
	// Only C02 quantifies over arbitrary clock readings; elsewhere the
	// collector clock behaves like a clock (strictly increasing readings).
	sc.ClockMode = "advancing"
	if prop == "C02" {
		sc.ClockMode = []string{"frozen", "advancing", "jumpy", "jumpy"}[rng.Intn(4)]
	}
	lifecycle := sc.ClockMode == "advancing" && (prop == "C14" || prop == "C15" || prop == "C12" || prop == "C03" && rng.Chance(0.6) || rng.Chance(0.15))
	pReset := 0.25
	if sc.Opts.FutureNs > 0 {
		pReset = 0.6 // what a Reset must forget only matters to the future-threshold rule
	}
	resetOnly := prop == "C02" && !lifecycle && rng.Chance(pReset)
	creep := int64(0)
	if (prop == "C02" || prop == "C15") && sc.Opts.FutureNs > 0 && sc.Opts.FutureNs < 100 && rng.Chance(0.6) {
		creep = sc.Opts.FutureNs
	}
	sc.Streams = GenStreamsC(rng, u, prop, lifecycle, resetOnly, small, share, 4+rng.Intn(26), creep)
	if prop == "C15" && len(sc.Targets) == 1 && rng.Chance(0.5) {
		sc.LatWin = true
		sc.LatPerNs = int64(4 + rng.Intn(12))
		sc.Latency = []string{fmt.Sprintf("%dns", sc.LatPerNs*int64(1+rng.Intn(2))), fmt.Sprintf("%dns", sc.LatPerNs*int64(3+rng.Intn(3)))}
		// sprinkle refreshes (and a few more syncs) into the stream
		var ops []Op
		for _, op := range sc.Streams[0] {
			ops = append(ops, op)
			if rng.Chance(0.3) {
				ops = append(ops, Op{K: "refresh"})
			}
			if rng.Chance(0.08) {
				ops = append(ops, Op{K: "sync"})
			}
		}
		sc.Streams[0] = append(ops, Op{K: "refresh"})
	}
	// clock task
	if sc.ClockMode != "frozen" || rng.Chance(0.5) {
		v := sc.Clock0
		for i := 1 + rng.Intn(8); i > 0; i-- {
			switch rng.Pick(5, 2, 2) {
			case 0:
				v += int64(rng.Intn(5))
			case 1:
				v += int64(10 + rng.Intn(40))
			case 2:
				if sc.ClockMode == "jumpy" {
					v -= int64(rng.Intn(30))
					if v < 1 {
						v = 1
					}
				}
			}
			sc.Clock = append(sc.Clock, Op{K: "clk", V: v})
		}
	}
	if (prop == "C15" || prop == "C12" || prop == "C03" && lifecycle && rng.Chance(0.5)) && !sc.LatWin {
		nref := 1 + rng.Intn(6)
		if prop == "C15" && rng.Chance(0.5) {
			nref = 6 + rng.Intn(12) // a refresher that keeps running next to the streams' lifecycle calls
		}
		for i := nref; i > 0; i-- {
			if rng.Chance(0.7) {
				sc.Refresh = append(sc.Refresh, Op{K: "meta"})
			} else {
				sc.Refresh = append(sc.Refresh, Op{K: "size"})
			}
		}
	}
	if len(sc.Refresh) > 0 && lifecycle {
		// a session that begins (Connect / Sync / ConnectError) just as the first
		// periodic refresh creates the target's metadata leaves
		for i := range sc.Streams {
			if rng.Chance(0.5) {
				first := Op{K: []string{"connect", "sync", "connerr"}[rng.Intn(3)]}
				sc.Streams[i] = append([]Op{first}, sc.Streams[i]...)
			}
		}
	}
	if rng.Chance(0.3) {
		sc.Readers = 1 + rng.Intn(2)
	}
	if (prop == "C03" || prop == "C14") && sc.ClockMode == "advancing" && rng.Chance(0.4) {
		sc.Resets = map[string]int{}
		for _, tg := range sc.Targets {
			if rng.Chance(0.8) {
				sc.Resets[tg] = 1 + rng.Intn(2)
			}
		}
		for i := 1 + rng.Intn(4); i > 0; i-- {
			sc.Admin = append(sc.Admin, AdminOp{K: []string{"remove", "remove", "add"}[rng.Intn(3)], Target: sc.Targets[rng.Intn(len(sc.Targets))]})
		}
		for _, tg := range sc.Targets {
			if !rng.Chance(0.5) {
				continue
			}
			sc.Readd = append(sc.Readd, tg)
			delete(sc.Resets, tg)
			var admin []AdminOp
			seen := false
			for _, op := range sc.Admin {
				if op.Target == tg {
					if op.K != "remove" || seen {
						continue
					}
					seen = true
				}
				admin = append(admin, op)
			}
			if !seen {
				admin = append(admin, AdminOp{K: "remove", Target: tg})
				if k := rng.Intn(len(admin)); k < len(admin)-1 {
					admin[k], admin[len(admin)-1] = admin[len(admin)-1], admin[k]
				}
			}
			sc.Admin = admin
		}
	}
	return sc, cfg
}

func (H) Shrinks(s any) []any {
	sc := s.(*Scenario)
	var out []any
	clone := func() *Scenario {
		c := *sc
		c.Streams = nil
		for _, t := range sc.Streams {
			c.Streams = append(c.Streams, append([]Op(nil), t...))
		}
		c.Targets = append([]string(nil), sc.Targets...)
		c.Clock = append([]Op(nil), sc.Clock...)
		c.Refresh = append([]Op(nil), sc.Refresh...)
		return &c
	}
	if len(sc.Targets) > 1 {
		for i := range sc.Targets {
			c := clone()
			c.Targets = append(c.Targets[:i], c.Targets[i+1:]...)
			c.Streams = append(c.Streams[:i], c.Streams[i+1:]...)
			out = append(out, c)
		}
	}
	if len(sc.Clock) > 0 {
		c := clone()
		c.Clock = nil
		out = append(out, c)
	}
	if len(sc.Refresh) > 0 {
		c := clone()
		c.Refresh = nil
		out = append(out, c)
	}
	if sc.Readers > 0 {
		c := clone()
		c.Readers = 0
		out = append(out, c)
	}
	if len(sc.Admin) > 0 || len(sc.Resets) > 0 {
		c := clone()
		c.Admin, c.Resets = nil, nil
		out = append(out, c)
		for i := range sc.Admin {
			c := clone()
			c.Admin = append(append([]AdminOp(nil), sc.Admin[:i]...), sc.Admin[i+1:]...)
			out = append(out, c)
		}
		for _, tg := range sc.Targets {
			if sc.Resets[tg] > 0 {
				c := clone()
				c.Resets = map[string]int{}
				for k, v := range sc.Resets {
					c.Resets[k] = v
				}
				c.Resets[tg]--
				out = append(out, c)
			}
		}
	}
	for i, t := range sc.Streams {
		for sz := len(t) / 2; sz >= 2; sz /= 2 {
			for off := 0; off+sz <= len(t); off += sz {
				c := clone()
				c.Streams[i] = append(append([]Op(nil), t[:off]...), t[off+sz:]...)
				out = append(out, c)
			}
		}
	}
	for i, t := range sc.Streams {
		for j := range t {
			c := clone()
			c.Streams[i] = append(c.Streams[i][:j], c.Streams[i][j+1:]...)
			out = append(out, c)
		}
	}
	for i := range sc.Clock {
		c := clone()
		c.Clock = append(c.Clock[:i], c.Clock[i+1:]...)
		out = append(out, c)
	}
	// simplify notifications
	for i, t := range sc.Streams {
		for j, op := range t {
			if op.N == nil {
				continue
			}
			if len(op.N.Ups) > 1 {
				for k := range op.N.Ups {
					c := clone()
					n := *op.N
					n.Ups = append(append([]gen.Upd(nil), op.N.Ups[:k]...), op.N.Ups[k+1:]...)
					c.Streams[i][j].N = &n
					out = append(out, c)
				}
			}
			if len(op.N.Dels) > 0 && len(op.N.Ups)+len(op.N.Dels) > 1 {
				for k := range op.N.Dels {
					c := clone()
					n := *op.N
					n.Dels = append(append([][]gen.Elem(nil), op.N.Dels[:k]...), op.N.Dels[k+1:]...)
					c.Streams[i][j].N = &n
					out = append(out, c)
				}
			}
			if op.N.SharePfx > 0 {
				c := clone()
				n := *op.N
				n.SharePfx = 0
				c.Streams[i][j].N = &n
				out = append(out, c)
			}
		}
	}
	return out
}

// ---------------------------------------------------------------- recording

type feedRec struct {
	stamp int64
	task  int
	snap  *pb.Notification // clone taken when delivered
	orig  *pb.Notification // the delivered object itself
	bytes string           // its serialisation when delivered
}

type leafSnap struct {
	content string
	ts      int64
	repr    string
	keyOK   bool
}

type metaSnap struct {
	ok    bool
	ints  map[string]int64
	sync  bool
	conn  bool
	cerr  string
	hasCE bool
}

type opRec struct {
	op        Op
	noti      *pb.Notification
	inv, ret  int64
	class     string
	errText   string
	nows      []int64
	feedFrom  int // index into the task's feed list
	feedTo    int
	after     map[string]leafSnap
	afterErr  string
	mutated   string
	hasTarget bool
	meta      metaSnap
	postUpd   string // after remove: result class of an update to the removed target
	lat       map[string]int64 // refresh op (LatWin): exported latency statistics, "<type>/<name>" -> value
}

func classify(err error) string {
	switch {
	case err == nil:
		return "ok"
	case errors.Is(err, cache.ErrStale):
		return "stale"
	case errors.Is(err, cache.ErrFuture):
		return "future"
	}
	return "error"
}

func marshal(m proto.Message) string {
	b, _ := proto.MarshalOptions{Deterministic: true}.Marshal(m)
	return string(b)
}

var metaInts = []string{metadata.LeafCount, metadata.AddCount, metadata.DelCount, metadata.UpdateCount, metadata.StaleCount,
	metadata.FutureCount, metadata.SuppressedCount, metadata.EmptyCount, metadata.LatestTimestamp}

func snapshotMeta(c *cache.Cache, target string) metaSnap {
	md := c.Metadata()[target]
	if md == nil {
		return metaSnap{}
	}
	ms := metaSnap{ok: true, ints: map[string]int64{}}
	for _, k := range metaInts {
		v, err := md.GetInt(k)
		if err == nil {
			ms.ints[k] = v
		}
	}
	ms.sync, _ = md.GetBool(metadata.Sync)
	ms.conn, _ = md.GetBool(metadata.Connected)
	s, err := md.GetStr(metadata.ConnectError)
	ms.cerr, ms.hasCE = s, err == nil
	return ms
}

func snapshotTarget(c *cache.Cache, target string) (map[string]leafSnap, string) {
	out := map[string]leafSnap{}
	err := c.Query(target, []string{"*"}, func(p []string, _ *ctree.Leaf, v interface{}) error {
		n, ok := v.(*pb.Notification)
		if !ok {
			out[gen.Key(p)] = leafSnap{content: fmt.Sprintf("<%T>", v)}
			return nil
		}
		var want []string
		if n.Atomic {
			want = gen.LeafKey(n.Prefix, nil)
		} else if len(n.Update) > 0 {
			want = gen.LeafKey(n.Prefix, n.Update[0].Path)
		}
		out[gen.Key(p)] = leafSnap{content: gen.CanonContent(n), ts: n.Timestamp, repr: marshal(n), keyOK: gen.Key(want) == gen.Key(p)}
		return nil
	})
	if err != nil {
		return nil, err.Error()
	}
	return out, ""
}

// ---------------------------------------------------------------- execution

type world struct {
	sc     *Scenario
	c      *cache.Cache
	clk    atomic.Int64
	nows   [][]int64   // per task id
	feeds  [][]feedRec // per task id
	recs   [][]opRec   // per stream
	clkLog [][2]int64  // (stamp, value), clock task only
	// stallAt: id of the task that is stalled at every clock reading (0 = none)
	stallAt atomic.Int64
}

const maxTasks = 64

func (H) Execute(x *common.Exec, s any) {
	sc := s.(*Scenario)
	w := &world{sc: sc, nows: make([][]int64, maxTasks), feeds: make([][]feedRec, maxTasks), recs: make([][]opRec, len(sc.Streams))}
	w.clk.Store(sc.Clock0)
	now := func() time.Time {
		v := w.clk.Load()
		if sc.ClockMode == "advancing" {
			v = w.clk.Add(1)
		}
		if t := simrt.Current(); t != nil && t.ID < maxTasks {
			w.nows[t.ID] = append(w.nows[t.ID], v)
			if int64(t.ID) == w.stallAt.Load() {
				// stall fault: the admin goroutine of the second phase is preempted
				// for a while wherever it reads the clock (inside Remove: while the
				// delete announcement is being built)
				for i := 0; i < 24; i++ {
					simrt.Yield("preempted-at-clock-read")
				}
			}
		}
		return time.Unix(0, v)
	}
	oldNow, oldLat := cache.Now, latency.Now
	cache.Now, latency.Now = now, now
	defer func() { cache.Now, latency.Now = oldNow, oldLat }()

	var opts []cache.Option
	if sc.Opts.FutureNs > 0 {
		opts = append(opts, cache.WithFutureThreshold(time.Duration(sc.Opts.FutureNs)))
	}
	if !sc.Opts.EventDriven {
		opts = append(opts, cache.DisableEventDrivenEmulation())
	}
	if sc.LatWin {
		o, err := cache.WithLatencyWindows(sc.Latency, time.Duration(sc.LatPerNs))
		if err != nil || o == nil {
			x.Violate(x.Prop+"/setup", "latency windows %v period %d: %v", sc.Latency, sc.LatPerNs, err)
			return
		}
		opts = append(opts, o)
	}
	w.c = cache.New(sc.Targets, opts...)
	w.c.SetClient(func(l *ctree.Leaf) {
		n, ok := l.Value().(*pb.Notification)
		if !ok {
			return
		}
		id := 0
		if t := simrt.Current(); t != nil && t.ID < maxTasks {
			id = t.ID
		}
		w.feeds[id] = append(w.feeds[id], feedRec{stamp: simrt.Stamp(), task: id, snap: proto.Clone(n).(*pb.Notification), orig: n, bytes: marshal(n)})
	})
	taskOf := make([]*simrt.Task, len(sc.Streams))
	for i := range sc.Streams {
		i := i
		target := sc.Targets[i]
		taskOf[i] = x.R.Go("stream-"+target, func() {
			me := simrt.Current().ID
			b := gen.NewBuilder() // prefix objects are shared within one stream
			for _, op := range sc.Streams[i] {
				r := opRec{op: op, feedFrom: len(w.feeds[me])}
				nowFrom := len(w.nows[me])
				r.inv = simrt.Stamp()
				switch op.K {
				case "upd":
					r.noti = b.Build(op.N)
					before := marshal(r.noti)
					err := w.c.GnmiUpdate(r.noti)
					r.class = classify(err)
					if err != nil {
						r.errText = err.Error()
					}
					if after := marshal(r.noti); after != before {
						r.mutated = fmt.Sprintf("before %x\nafter  %x", before, after)
					}
					// keep the object for later: the cache stores it
				case "reset":
					w.c.Reset(target)
				case "remove":
					w.c.Remove(target)
				case "add":
					if !w.c.HasTarget(target) { // Add on an existing target silently replaces it: never generated
						w.c.Add(target)
					}
				case "sync":
					w.c.Sync(target)
				case "connect":
					w.c.Connect(target)
				case "connerr":
					w.c.ConnectError(target, errors.New("dial failed"))
				case "refresh":
					w.c.UpdateMetadata()
				}
				r.ret = simrt.Stamp()
				r.feedTo = len(w.feeds[me])
				r.nows = append([]int64(nil), w.nows[me][nowFrom:]...)
				simrt.Quietly(func() {
					r.hasTarget = w.c.HasTarget(target)
					r.after, r.afterErr = snapshotTarget(w.c, target)
					r.meta = snapshotMeta(w.c, target)
					if sc.LatWin && op.K == "refresh" {
						if md := w.c.Metadata()[target]; md != nil {
							r.lat = map[string]int64{}
							for _, win := range w.c.LatencyWindows() {
								for _, typ := range []latency.StatType{latency.Avg, latency.Max, latency.Min} {
									name := latency.MetadataName(win, typ)
									if v, err := md.GetInt(name); err == nil {
										r.lat[typ.String()+"/"+name] = v
									}
								}
							}
						}
					}
				})
				if op.K == "remove" {
					probe := &pb.Notification{Timestamp: 1 << 40, Prefix: &pb.Path{Target: target}, Update: []*pb.Update{{Path: &pb.Path{Elem: []*pb.PathElem{{Name: "zz"}}}, Val: &pb.TypedValue{Value: &pb.TypedValue_IntVal{IntVal: 1}}}}}
					r.postUpd = classify(w.c.GnmiUpdate(probe))
					r.feedTo = len(w.feeds[me])
				}
				w.recs[i] = append(w.recs[i], r)
			}
		})
	}
	if len(sc.Clock) > 0 {
		x.R.Go("clock", func() {
			for _, op := range sc.Clock {
				simrt.Yield("clock")
				v := op.V
				if sc.ClockMode == "advancing" {
					if cur := w.clk.Load(); v <= cur {
						v = cur + 1
					}
				}
				w.clk.Store(v)
				w.clkLog = append(w.clkLog, [2]int64{simrt.Stamp(), v})
			}
		})
	}
	if len(sc.Refresh) > 0 {
		x.R.Go("refresh", func() {
			for _, op := range sc.Refresh {
				simrt.Yield("refresh")
				if op.K == "meta" {
					w.c.UpdateMetadata()
				} else {
					w.c.UpdateSize()
				}
			}
		})
	}
	for k := 0; k < sc.Readers; k++ {
		x.R.Go("reader", func() {
			for i := 0; i < 3; i++ {
				w.c.Query("*", []string{"*"}, func([]string, *ctree.Leaf, interface{}) error { return nil })
			}
		})
	}
	out := x.R.Schedule(false, nil)
	x.R.AcquireEnd()
	if out == simrt.StepLimit {
		x.Inconclusive = "step-limit"
		return
	}
	if out != simrt.AllDone {
		x.Violate(x.Prop+"/deadlock", "cache operations blocked forever: %s", x.R.Summary())
		return
	}
	// Final full content, read after everything returned.
	final := map[string]map[string]leafSnap{}
	finalMeta := map[string]metaSnap{}
	x.R.Go("final", func() {
		// one last refresh, as the collector's periodic task would do
		w.c.UpdateMetadata()
		for _, tg := range sc.Targets {
			if w.c.HasTarget(tg) {
				final[tg], _ = snapshotTarget(w.c, tg)
				finalMeta[tg] = snapshotMeta(w.c, tg)
			}
		}
	})
	x.R.Schedule(true, nil)
	x.R.AcquireEnd()
	w.countFaults(x)
	if x.Prop == "C12" {
		w.judgeHostile(x)
		return
	}
	w.judge(x, final, finalMeta)
	if len(x.Viol) > 0 || len(sc.Admin) == 0 {
		return
	}
	// ---- second phase: Reset raced against Remove / Add of the same targets
	for _, tg := range sc.Targets {
		tg := tg
		if n := sc.Resets[tg]; n > 0 {
			x.R.Go("resetter-"+tg, func() {
				for i := 0; i < n; i++ {
					w.c.Reset(tg)
				}
			})
		}
	}
	x.R.Go("admin", func() {
		if len(sc.Readd) > 0 {
			if t := simrt.Current(); t != nil {
				w.stallAt.Store(int64(t.ID))
			}
		}
		for _, op := range sc.Admin {
			switch op.K {
			case "remove":
				w.c.Remove(op.Target)
			case "add":
				if !w.c.HasTarget(op.Target) {
					w.c.Add(op.Target)
				}
			}
		}
	})
	var readded atomic.Int64
	for _, tg := range sc.Readd {
		tg := tg
		x.R.Go("readder-"+tg, func() {
			// Only a target this task has seen present is re-added: its one Remove
			// of this phase is then known to be the one that made it disappear,
			// and the update below cannot race a Remove of its own target
			// (DESIGN 5.1).
			if !w.c.HasTarget(tg) {
				return
			}
			for i := 0; i < 300; i++ {
				if !w.c.HasTarget(tg) {
					w.c.Add(tg)
					w.c.GnmiUpdate(&pb.Notification{Timestamp: 100000, Prefix: &pb.Path{Target: tg},
						Update: []*pb.Update{{Path: &pb.Path{Elem: []*pb.PathElem{{Name: "readded"}}}, Val: &pb.TypedValue{Value: &pb.TypedValue_IntVal{IntVal: 1}}}}})
					readded.Add(1)
					return
				}
				simrt.Yield("readd-poll")
			}
		})
	}
	out = x.R.Schedule(false, nil)
	x.R.AcquireEnd()
	if out == simrt.StepLimit {
		x.Inconclusive = "step-limit"
		return
	}
	if out != simrt.AllDone {
		x.Violate(x.Prop+"/deadlock", "lifecycle calls blocked forever: %s", x.R.Summary())
		return
	}
	for i := readded.Load(); i > 0; i-- {
		x.Probe("target-re-added-by-a-second-goroutine-while-or-after-its-remove")
	}
	final2 := map[string]map[string]leafSnap{}
	x.R.Go("final2", func() {
		for _, tg := range sc.Targets {
			if w.c.HasTarget(tg) {
				final2[tg], _ = snapshotTarget(w.c, tg)
			}
		}
	})
	x.R.Schedule(true, nil)
	x.R.AcquireEnd()
	w.judgeLifecycleRace(x, final2)
}

// countFaults reports what actually happened in this run that the property
// quantifies over as a fault or an adverse condition (read from the records
// after every task has finished).
func (w *world) countFaults(x *common.Exec) {
	sc := w.sc
	for _, rs := range w.recs {
		var lastTS int64
		for _, r := range rs {
			switch r.op.K {
			case "reset", "remove", "add", "connerr":
				x.Fault("target-" + r.op.K)
			case "upd":
				switch r.class {
				case "stale", "future":
					x.Fault("update-rejected-" + r.class)
				case "error":
					x.Fault("update-rejected-other")
				}
				if r.noti != nil {
					if r.noti.Timestamp < lastTS {
						x.Fault("timestamp-out-of-order")
					} else if r.noti.Timestamp == lastTS {
						x.Fault("timestamp-equal-to-previous")
					}
					lastTS = r.noti.Timestamp
					if r.noti.Atomic {
						x.Fault("atomic-notification")
					}
					if x.Prop == "C12" {
						for _, f := range gen.UnusualFeatures(r.noti) {
							x.Fault("peer-message:" + f)
						}
					}
					if len(r.noti.Delete) > 0 {
						x.Fault("delete-in-notification")
					}
				}
			}
		}
	}
	prev := sc.Clock0
	for _, c := range w.clkLog {
		if c[1] < prev {
			x.Fault("collector-clock-jumps-backwards")
		} else if c[1] > prev+5 {
			x.Fault("collector-clock-jumps-forwards")
		}
		prev = c[1]
	}
	if sc.ClockMode == "frozen" {
		x.Fault("collector-clock-frozen")
	}
	if len(sc.Refresh) > 0 {
		x.Fault("concurrent-metadata-refresh")
	}
	if sc.Readers > 0 {
		x.Fault("concurrent-readers")
	}
	if len(sc.Admin) > 0 {
		x.Fault("reset-raced-with-remove-add")
	}
	if len(sc.Readd) > 0 {
		x.Fault("remove-raced-with-re-add-by-a-second-goroutine")
		x.Fault("goroutine-stalled-at-clock-read")
	}
}

// judgeLifecycleRace: after Reset calls raced against Remove/Add of the same
// targets, a consumer of the change feed still holds exactly what the cache
// holds: the data leaves are equal, and no metadata leaf is reported that the
// cache does not store with that value (metadata created silently by Add may
// be missing from the feed, so that direction is not demanded).
func (w *world) judgeLifecycleRace(x *common.Exec, final map[string]map[string]leafSnap) {
	var all []feedRec
	for _, f := range w.feeds {
		all = append(all, f...)
	}
	sort.Slice(all, func(i, j int) bool { return all[i].stamp < all[j].stamp })
	rp := cachemodel.Replay{}
	for _, fr := range all {
		rp.Feed(fr.snap)
	}
	x.Probe("lifecycle-race-judged")
	tail := func() string {
		var sb strings.Builder
		lo := len(all) - 14
		if lo < 0 {
			lo = 0
		}
		for _, fr := range all[lo:] {
			fmt.Fprintf(&sb, "  [%d] task %d: %s\n", fr.stamp, fr.task, compact(fr.snap))
		}
		return sb.String()
	}
	for _, tg := range w.sc.Targets {
		x.Oblige(1)
		snap, known := final[tg]
		if got, want := rp.String(tg, false), contentOf(snap, false); got != want {
			msg := fmt.Sprintf("after Reset raced with %v: replaying the change feed gives for target %s (known to the cache: %v)\n%sbut the cache holds\n%slast feed entries:\n%s", w.sc.Admin, tg, known, got, want, tail())
			x.Violate("C03/replay-mismatch-after-lifecycle-race", "%s", msg)
			x.Violate("C14/feed-vs-cache-after-lifecycle-race", "%s", msg)
			return
		}
		keys := make([]string, 0, len(rp[tg]))
		for k := range rp[tg] {
			if cachemodel.IsMeta(k) {
				keys = append(keys, k)
			}
		}
		sort.Strings(keys)
		for _, k := range keys {
			if ls, ok := snap[k]; !known || !ok || ls.content != rp[tg][k] {
				msg := fmt.Sprintf("after Reset raced with %v: the change feed says target %s (known to the cache: %v) has %s=%s, the cache stores %q (present=%v)\nlast feed entries:\n%s", w.sc.Admin, tg, known, gen.Show(k), rp[tg][k], ls.content, ok, tail())
				x.Violate("C03/replay-mismatch-after-lifecycle-race", "%s", msg)
				x.Violate("C14/feed-vs-cache-after-lifecycle-race", "%s", msg)
				return
			}
		}
	}
}

// ---------------------------------------------------------------- judging

func contentOf(m map[string]leafSnap, withTS bool) string {
	keys := make([]string, 0, len(m))
	for k := range m {
		if !cachemodel.IsMeta(k) {
			keys = append(keys, k)
		}
	}
	sort.Strings(keys)
	var sb strings.Builder
	for _, k := range keys {
		if withTS {
			fmt.Fprintf(&sb, "%s=%s@%d\n", gen.Show(k), m[k].content, m[k].ts)
		} else {
			fmt.Fprintf(&sb, "%s=%s\n", gen.Show(k), m[k].content)
		}
	}
	return sb.String()
}

func (w *world) judge(x *common.Exec, final map[string]map[string]leafSnap, finalMeta map[string]metaSnap) {
	sc := w.sc
	// Global feed order.
	var feed []feedRec
	for _, f := range w.feeds {
		feed = append(feed, f...)
	}
	sort.Slice(feed, func(i, j int) bool { return feed[i].stamp < feed[j].stamp })
	nOps := 0
	h := fnv.New64a()
targets:
	for i, tg := range sc.Targets {
		m := cachemodel.NewTarget()
		exists := true
		hist := func(upto int) string {
			var sb strings.Builder
			from := upto - 12
			if from < 0 {
				from = 0
			}
			for k := from; k <= upto; k++ {
				r := w.recs[i][k]
				fmt.Fprintf(&sb, "  #%d %s", k, r.op.K)
				if r.noti != nil {
					fmt.Fprintf(&sb, " %s", compact(r.noti))
				}
				fmt.Fprintf(&sb, " -> %s %s\n", r.class, r.errText)
			}
			return sb.String()
		}
		synced, connected := false, false
		latCands := map[int64]bool{}
		resetSeen := false
		for k, r := range w.recs[i] {
			if r.op.K == "reset" {
				resetSeen = true
			}
			nOps++
			cBefore := m.C
			if exists {
				switch r.op.K {
				case "sync":
					synced = true
				case "connect":
					connected = true
				case "reset", "remove":
					synced, connected = false, false
				}
			}
			if sc.LatWin && exists {
				switch r.op.K {
				case "upd":
					// every clock reading taken during an update of a synced target
					// is a candidate for the reading its latency was measured with
					if synced && r.noti != nil {
						for _, rd := range r.nows {
							latCands[rd-r.noti.Timestamp] = true
						}
					}
				case "remove":
					latCands = map[int64]bool{} // a re-added target starts with fresh statistics
				case "refresh":
					x.Probe("latency-export-judged-at-cache-level")
					lo, hi := int64(1<<62), int64(-1<<62)
					for v := range latCands {
						lo, hi = min(lo, v), max(hi, v)
					}
					var names []string
					for name := range r.lat {
						names = append(names, name)
					}
					sort.Strings(names)
					for _, name := range names {
						v := r.lat[name]
						if v == 0 {
							continue // not exported
						}
						x.Oblige(1)
						x.Probe("latency-statistic-exported-by-the-cache-judged")
						if len(latCands) == 0 {
							x.Violate("C15/latency-exported-without-post-sync-update", "target %s op #%d: %s = %d exported although no update has been accepted from the target while it was synced\n%s", tg, k, name, v, hist(k))
							return
						}
						switch {
						case strings.HasPrefix(name, "avg/"):
							if v < lo-1 || v > hi+1 {
								x.Violate("C15/latency-avg-outside-observed-latencies", "target %s op #%d: %s = %d, but every latency a post-sync update of this target can have had lies in [%d, %d]\n%s", tg, k, name, v, lo, hi, hist(k))
								return
							}
						default:
							if !latCands[v] {
								x.Violate("C15/latency-extreme-not-an-observed-latency", "target %s op #%d: %s = %d is not the latency (collector clock reading - update timestamp) of any update accepted from this target while it was synced; candidates lie in [%d, %d]\n%s", tg, k, name, v, lo, hi, hist(k))
								return
							}
						}
					}
				}
			}
			taskFeed := w.opFeed(i, r)
			var observed []cachemodel.FE
			foreign := ""
			for _, fr := range taskFeed {
				t, es := cachemodel.FeedEntries(fr.snap)
				if t != tg {
					foreign = fmt.Sprintf("%s (for target %q)", compact(fr.snap), t)
				}
				observed = append(observed, es...)
			}
			if foreign != "" {
				x.Violate("C14/feed-foreign-target", "operation %s on target %s put a notification for another target on the feed: %s\n%s", r.op.K, tg, foreign, hist(k))
			}
			feedBad := false
			switch r.op.K {
			case "upd":
				if !exists {
					x.Oblige(1)
					if r.class != "error" || len(observed) > 0 {
						x.Violate("C14/update-after-remove", "update to removed target %s: result %s, %d feed entries", tg, r.class, len(observed))
					}
					continue
				}
				clock := r.nows
				if len(clock) > 1 && len(r.noti.GetUpdate())+len(r.noti.GetDelete()) <= 1 || r.noti.GetAtomic() && len(clock) > 1 {
					clock = clock[:1] // one leaf, one future check: it used the first reading
				}
				// (a multi-update notification checks each update against its own
				// reading of an advancing clock: the model gets all of them and treats
				// verdicts that depend on which one was used as may, not must)
				if len(clock) == 0 {
					clock = w.clockRange(r.inv, r.ret)
				}
				exp := m.Apply(r.noti, sc.Opts, clock)
				if exp.Ambiguous {
					x.Probe("model-gave-up:future-verdict-of-a-multi-update-depends-on-the-clock-reading")
					continue targets
				}
				if len(exp.Classes) == 1 && exp.Classes[0] == "future" && resetSeen {
					x.Probe("future-verdict-after-a-reset")
				}
				x.Oblige(3)
				okClass := false
				for _, c := range exp.Classes {
					if c == r.class {
						okClass = true
					}
				}
				if !okClass {
					x.Violate("C02/result-"+r.class+"-want-"+strings.Join(exp.Classes, "|"), "target %s op #%d %s returned %s (%s), the statement allows %v; clock readings %v, model before: latest=%d\n%s", tg, k, compact(r.noti), r.class, r.errText, exp.Classes, clock, m.Latest, hist(k))
					return
				}
				if len(exp.Classes) == 2 && exp.Classes[1] == "future" && len(r.noti.Update) == 1 {
					m.ResolveFuture(gen.Key(gen.LeafKey(r.noti.Prefix, r.noti.Update[0].Path)), r.noti, r.class == "ok")
				}
				m.Settle(observed, exp)
				if msg := cachemodel.MatchFeed(observed, exp); msg != "" {
					sig := "C03/feed"
					if strings.Contains(msg, "missing") {
						sig = "C03/feed-missing"
					} else {
						sig = "C03/feed-unexpected"
					}
					x.Violate(sig, "target %s op #%d %s (result %s): %s\nobserved feed: %v\nexpected: %v\n%s", tg, k, compact(r.noti), r.class, msg, observed, exp.Groups, hist(k))
					feedBad = true // the stored content is still compared with the model below (C02)
				}
				if r.mutated != "" {
					x.Violate("C03/input-mutated", "target %s op #%d: the caller's notification was modified by GnmiUpdate\n%s", tg, k, r.mutated)
				}
			case "reset":
				if !exists {
					continue
				}
				// announced deletes must cover every leaf the target had
				x.Oblige(2)
				for key := range m.Leaves {
					if cachemodel.IsMeta(key) {
						continue
					}
					covered := false
					for _, o := range observed {
						if o.Kind == "del" && gen.Match(gen.Unkey(o.Key), gen.Unkey(key)) != gen.No {
							covered = true
						}
					}
					if !covered {
						x.Violate("C14/reset-delete-not-announced", "Reset(%s): leaf %s was stored but no delete on the feed covers it; feed: %v\n%s", tg, gen.Show(key), observed, hist(k))
					}
				}
				m.Reset()
				x.Oblige(1)
				if r.meta.ok {
					bad := ""
					if r.meta.sync || r.meta.conn {
						bad = fmt.Sprintf("sync=%v connected=%v", r.meta.sync, r.meta.conn)
					}
					for _, name := range []string{metadata.LeafCount, metadata.AddCount, metadata.DelCount, metadata.UpdateCount, metadata.StaleCount, metadata.FutureCount, metadata.SuppressedCount, metadata.EmptyCount} {
						if r.meta.ints[name] != 0 {
							bad += fmt.Sprintf(" %s=%d", name, r.meta.ints[name])
						}
					}
					if bad != "" {
						x.Violate("C14/reset-metadata-not-initial", "Reset(%s): metadata after reset: %s\n%s", tg, bad, hist(k))
					}
				}
			case "remove":
				if !exists {
					continue
				}
				exists = false
				m = cachemodel.NewTarget()
				x.Oblige(3)
				if r.hasTarget || r.afterErr == "" {
					x.Violate("C14/remove-target-still-known", "Remove(%s): HasTarget=%v, Query error=%q", tg, r.hasTarget, r.afterErr)
				}
				if r.postUpd != "error" {
					x.Violate("C14/update-after-remove", "update to removed target %s returned %s", tg, r.postUpd)
				}
				whole := false
				for _, o := range observed {
					if o.Kind == "del" && o.Key == gen.Key([]string{"*"}) {
						whole = true
					}
				}
				if !whole {
					x.Violate("C14/remove-not-announced", "Remove(%s): no whole-target delete on the feed: %v", tg, observed)
				}
				continue
			case "add":
				if exists {
					continue
				}
				exists = true
				m = cachemodel.NewTarget()
			case "sync", "connect", "connerr":
				if !exists {
					continue
				}
			}
			if !exists {
				continue
			}
			// Stored content after the operation == model.
			x.Oblige(2)
			if r.afterErr != "" {
				x.Violate("C02/query-error", "target %s op #%d: Query failed: %s", tg, k, r.afterErr)
				return
			}
			for key, ls := range r.after {
				if !ls.keyOK && !cachemodel.IsMeta(key) {
					x.Violate("C02/stored-under-wrong-path", "target %s: leaf reported at %s holds a notification for another path", tg, gen.Show(key))
				}
			}
			// Feed replay up to here == stored content (values): independent of the model.
			rp := cachemodel.Replay{}
			for _, fr := range feed {
				if fr.stamp < r.ret || (r.op.K == "remove") {
					rp.Feed(fr.snap)
				}
			}
			replayBad := false
			if got, want := rp.String(tg, false), contentOf(r.after, false); got != want {
				x.Violate("C03/replay-mismatch", "target %s after op #%d %s: replaying the change feed gives\n%sbut the cache holds\n%s%s", tg, k, r.op.K, got, want, hist(k))
				replayBad = true
			}
			if got, want := contentOf(r.after, true), m.Content(true); got != want {
				sig := "C02/content"
				if r.op.K != "upd" {
					sig = "C14/content-after-" + r.op.K
				}
				x.Violate(sig, "target %s after op #%d %s: cache holds\n%swant (model)\n%s%s", tg, k, r.op.K, got, want, hist(k))
				return
			}
			if replayBad || feedBad {
				return
			}
			var prev *opRec
			if k > 0 {
				prev = &w.recs[i][k-1]
			}
			w.judgeCounters(x, tg, k, r, prev, cBefore, m.C, hist)
		}
		// final content (isolation: nobody else changed this target)
		x.Oblige(1)
		if exists {
			if got, want := contentOf(final[tg], true), m.Content(true); got != want {
				x.Violate("C14/isolation-final-content", "target %s at the end of the run holds\n%swant (model of its own stream)\n%s", tg, got, want)
			}
		} else if _, ok := final[tg]; ok {
			x.Violate("C14/removed-target-present", "target %s is known at the end although its last lifecycle call was Remove", tg)
		}
		fmt.Fprint(h, m.Content(false))
		// End state after a last refresh: sync/connected flags and the latest
		// timestamp, in the metadata object and in the meta/ leaves.
		if fm, ok := finalMeta[tg]; ok && exists && fm.ok {
			x.Oblige(1)
			// Observation beyond the listed properties (not a violation of
			// C15 as stated, which does not name the sync/connected flags): a
			// periodic refresh that overlaps Sync()/Connect() can write its
			// stale reading of the flag back into the metadata.
			if fm.sync != synced || fm.conn != connected {
				x.Probe("observation:sync-or-connected-flag-reverted-by-concurrent-refresh")
			}
			if m.Latest > 0 {
				if got := fm.ints[metadata.LatestTimestamp]; got != m.Latest {
					x.Violate("C15/latest-timestamp", "target %s after a refresh: latestTimestamp=%d, greatest accepted target timestamp is %d", tg, got, m.Latest)
				}
				if ls, ok := final[tg][gen.Key([]string{"meta", metadata.LatestTimestamp})]; ok && ls.content != fmt.Sprintf("int:%d", m.Latest) {
					x.Violate("C15/latest-timestamp-leaf", "target %s after a refresh: leaf meta/latestTimestamp=%s, greatest accepted target timestamp is %d", tg, ls.content, m.Latest)
				}
			}
		}
	}
	// Metadata leaves: whatever the periodic refresh and the streams' lifecycle
	// calls did to one metadata leaf concurrently, a consumer of the feed ends
	// up with the value the cache stores (the feed hands out live leaves, so
	// announcements of overlapping writes converge on the stored value). Leaves
	// that are also deleted - meta/connectError by Connect, any metadata leaf by
	// a wildcard delete the target itself sends - are left out: a refresh whose
	// update of such a leaf is in flight writes into the leaf object the delete
	// has just detached and announces that (found by the thorough tier, 3 runs in
	// 138 000: feed says sync=false, cache stores the re-created sync=true). The
	// statement of C03 quantifies over sequences per target, not over a refresh
	// racing the target's own deletes of metadata; recorded as an observation. Metadata the cache creates silently (Add)
	// may be missing from the feed, so only this direction is demanded.
	if len(sc.Readd) == 0 && len(sc.Admin) == 0 {
		rpAll := cachemodel.Replay{}
		for _, fr := range feed {
			rpAll.Feed(fr.snap)
		}
		for _, tg := range sc.Targets {
			snap, known := final[tg]
			if !known {
				continue
			}
			// metadata leaves that were deleted at some point of the run (by Connect,
			// or by a delete the target itself sent that covers them)
			deleted := map[string]bool{}
			for _, fr := range feed {
				ftg, es := cachemodel.FeedEntries(fr.snap)
				if ftg != tg {
					continue
				}
				for _, e := range es {
					if e.Kind != "del" {
						continue
					}
					for k := range rpAll[tg] {
						if cachemodel.IsMeta(k) && gen.Match(gen.Unkey(e.Key), gen.Unkey(k)) != gen.No {
							deleted[k] = true
						}
					}
				}
			}
			var keys []string
			for k := range rpAll[tg] {
				if cachemodel.IsMeta(k) && k != gen.Key([]string{"meta", metadata.ConnectError}) && !deleted[k] {
					keys = append(keys, k)
				}
			}
			sort.Strings(keys)
			for _, k := range keys {
				x.Oblige(1)
				if ls, ok := snap[k]; !ok || ls.content != rpAll[tg][k] {
					var sb strings.Builder
					for _, fr := range feed {
						ftg, es := cachemodel.FeedEntries(fr.snap)
						for _, e := range es {
							if ftg == tg && (e.Key == k || e.Kind == "del") {
								fmt.Fprintf(&sb, "  [%d] task %d: %s\n", fr.stamp, fr.task, compact(fr.snap))
							}
						}
					}
					x.Violate("C03/feed-metadata-leaf-differs-from-cache", "at the end of the run the change feed says target %s has %s=%s, the cache stores %q @%d (present=%v)\nfeed entries for that leaf:\n%s", tg, gen.Show(k), rpAll[tg][k], ls.content, ls.ts, ok, sb.String())
					break
				}
			}
		}
	}
	// Retroactive corruption of delivered notifications (aliasing).
	for _, fr := range feed {
		x.Oblige(1)
		if marshal(fr.orig) != fr.bytes {
			x.Violate("C03/delivered-notification-mutated", "a notification handed to the feed changed afterwards:\nwas %s\nnow %s", compact(fr.snap), compact(fr.orig))
			break
		}
	}
	x.NonTrivial = nOps >= 3
	x.StateHash = h.Sum64()
}

// opFeed returns the feed records produced on the stream task during r.
func (w *world) opFeed(stream int, r opRec) []feedRec {
	// stream i is task id i (streams are spawned first, in order)
	f := w.feeds[stream]
	if r.feedTo > len(f) {
		return nil
	}
	return f[r.feedFrom:r.feedTo]
}

func (w *world) clockRange(inv, ret int64) []int64 {
	cur := w.sc.Clock0
	vals := map[int64]bool{}
	for _, e := range w.clkLog {
		if e[0] < inv {
			cur = e[1]
		}
	}
	vals[cur] = true
	for _, e := range w.clkLog {
		if e[0] >= inv && e[0] <= ret {
			vals[e[1]] = true
		}
	}
	var out []int64
	for v := range vals {
		out = append(out, v)
	}
	sort.Slice(out, func(i, j int) bool { return out[i] < out[j] })
	return out
}

func compact(n *pb.Notification) string {
	var sb strings.Builder
	fmt.Fprintf(&sb, "{ts=%d", n.Timestamp)
	if n.Atomic {
		sb.WriteString(" atomic")
	}
	if n.Prefix != nil {
		fmt.Fprintf(&sb, " prefix=%s:%s%s", n.Prefix.Target, n.Prefix.Origin, gen.Show(gen.Key(gen.Index(n.Prefix))))
	}
	for _, u := range n.Update {
		fmt.Fprintf(&sb, " upd %s=%s", gen.Show(gen.Key(gen.Index(u.Path))), gen.CanonUpdateVal(u))
	}
	for _, d := range n.Delete {
		fmt.Fprintf(&sb, " del %s", gen.Show(gen.Key(gen.Index(d))))
	}
	sb.WriteString("}")
	return sb.String()
}

// judgeCounters: C15 counter clauses after every operation of the stream.
//
// Invariants (every operation): targetLeaves == number of stored non-metadata
// leaves == added - deleted. Classification (update operations only, judged on
// the counter deltas across the operation so that the collector's own
// metadata updates made by lifecycle calls are not attributed to the
// target's stream): stale / future / empty / added / deleted move exactly as
// the model says, suppressed by at most the number of accepted updates that
// left the value unchanged, updated by the emitted updates plus the submitted
// deletes. With a refresh task running concurrently the deltas are only
// lower-bounded (the refresh's metadata updates go through the same counters).
func (w *world) judgeCounters(x *common.Exec, tg string, k int, r opRec, prev *opRec, before, after cachemodel.Counters, hist func(int) string) {
	if !r.meta.ok {
		return
	}
	mi := r.meta.ints
	x.Oblige(2)
	nonMeta := 0
	for key := range r.after {
		if !cachemodel.IsMeta(key) {
			nonMeta++
		}
	}
	if mi[metadata.LeafCount] != int64(nonMeta) {
		x.Violate("C15/leafcount-vs-stored", "target %s after op #%d %s: targetLeaves=%d but %d non-metadata leaves are stored\n%s", tg, k, r.op.K, mi[metadata.LeafCount], nonMeta, hist(k))
		return
	}
	if mi[metadata.LeafCount] != mi[metadata.AddCount]-mi[metadata.DelCount] {
		x.Violate("C15/leafcount-vs-added-deleted", "target %s after op #%d %s: targetLeaves=%d, added=%d, deleted=%d\n%s", tg, k, r.op.K, mi[metadata.LeafCount], mi[metadata.AddCount], mi[metadata.DelCount], hist(k))
		return
	}
	if r.op.K != "upd" || prev == nil || !prev.meta.ok || after.Ambiguous {
		return
	}
	pi := prev.meta.ints
	d := func(name string) int64 { return mi[name] - pi[name] }
	exact := len(w.sc.Refresh) == 0
	type cl struct {
		name string
		got  int64
		want int64
	}
	x.Oblige(5)
	for _, c := range []cl{
		{"stale", d(metadata.StaleCount), after.Stale - before.Stale},
		{"future", d(metadata.FutureCount), after.Future - before.Future},
		{"empty", d(metadata.EmptyCount), after.Empty - before.Empty},
		{"added", d(metadata.AddCount), after.Added - before.Added},
		{"deleted", d(metadata.DelCount), after.Deleted - before.Deleted},
	} {
		if c.got < c.want || exact && c.got != c.want {
			x.Violate("C15/count-"+c.name, "target %s op #%d %s: %s counter moved by %d, the statement says %d\n%s", tg, k, compact(r.noti), c.name, c.got, c.want, hist(k))
			return
		}
	}
	if !exact {
		return
	}
	sup := d(metadata.SuppressedCount)
	supMax := after.Suppressible - before.Suppressible
	if sup < 0 || sup > supMax {
		x.Violate("C15/count-suppressed", "target %s op #%d %s: suppressed moved by %d but only %d accepted update(s) left the value unchanged\n%s", tg, k, compact(r.noti), sup, supMax, hist(k))
		return
	}
	acc := after.Accepted - before.Accepted
	dels := after.DeletesSubmitted - before.DeletesSubmitted
	upd := d(metadata.UpdateCount)
	lo, hi := acc-sup+dels, acc-sup+dels
	if r.noti.Atomic && acc == 1 {
		hi = int64(len(r.noti.Update)) // an accepted atomic container counts once or once per contained update
	}
	if upd < lo || upd > hi {
		x.Violate("C15/count-updated", "target %s op #%d %s: updated moved by %d; %d accepted, %d suppressed, %d delete(s) submitted => expected %d..%d\n%s", tg, k, compact(r.noti), upd, acc, sup, dels, lo, hi, hist(k))
	}
}

// judgeHostile: C12 at the cache level. Panics are reported by the framework
// (every task is wrapped); here: a message that was rejected (an error was
// returned) leaves what was stored before intact.
func (w *world) judgeHostile(x *common.Exec) {
	n := 0
	for i, tg := range w.sc.Targets {
		for k, r := range w.recs[i] {
			n++
			if r.op.K != "upd" || r.class == "ok" || k == 0 {
				continue
			}
			prev := w.recs[i][k-1]
			if prev.after == nil || r.after == nil {
				continue
			}
			x.Oblige(1)
			// a multi-update notification reports an error if any part failed while other parts were applied
			if len(r.noti.GetUpdate())+len(r.noti.GetDelete()) > 1 && !r.noti.GetAtomic() {
				continue
			}
			if got, was := contentOf(r.after, true), contentOf(prev.after, true); got != was {
				x.Violate("C12/rejected-message-changed-state", "target %s: %s was rejected (%s: %s) but the stored data changed from\n%sto\n%s", tg, compact(r.noti), r.class, r.errText, was, got)
				return
			}
		}
	}
	x.NonTrivial = n >= 2
	x.StateHash = uint64(n)
}
