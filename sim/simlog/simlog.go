//go:build go1.25

// Package simlog replaces github.com/golang/glog in the instrumented copy:
// no files, no stderr, no flush goroutine; Exit/Fatal end the simulated
// process instead of the test binary.
package simlog

import (
	"fmt"
	"os"

	"github.com/openconfig/gnmi/zzverif/simrt"
)

// Level mirrors glog.Level.
type Level int32

// Verbose mirrors glog.Verbose.
type Verbose bool

// Debug, when set (VERIF_LOG=1), prints log lines to stderr.
var Debug = os.Getenv("VERIF_LOG") != ""

func out(sev string, s string) {
	if Debug {
		fmt.Fprintf(os.Stderr, "[%s] %s\n", sev, s)
	}
}

// Verbosity is the -v level of the simulated process (0 = verbose logging
// off, as in the shipped binaries by default). A harness may raise it for a
// run: the `if log.V(n) { ... }` blocks and `log.V(n).Infof` calls then run
// and format their arguments (nothing is printed unless debugging).
var Verbosity Level

// V reports whether verbose logging at level l is on.
func V(l Level) Verbose { return Verbose(Debug || l <= Verbosity) }

func (v Verbose) Info(args ...any) {
	if v {
		out("V", fmt.Sprint(args...))
	}
}
func (v Verbose) Warningf(f string, args ...any) {
	if v {
		out("V", fmt.Sprintf(f, args...))
	}
}
func (v Verbose) Errorf(f string, args ...any) {
	if v {
		out("V", fmt.Sprintf(f, args...))
	}
}
func (v Verbose) Infoln(args ...any) {
	if v {
		out("V", fmt.Sprintln(args...))
	}
}
func (v Verbose) Infof(f string, args ...any) {
	if v {
		out("V", fmt.Sprintf(f, args...))
	}
}

// The message is always formatted: formatting is where a hostile message
// could make the process panic (C12), so it must not be skipped.
func Info(args ...any)               { out("I", fmt.Sprint(args...)) }
func Infoln(args ...any)             { out("I", fmt.Sprintln(args...)) }
func Infof(f string, args ...any)    { out("I", fmt.Sprintf(f, args...)) }
func Warning(args ...any)            { out("W", fmt.Sprint(args...)) }
func Warningln(args ...any)          { out("W", fmt.Sprintln(args...)) }
func Warningf(f string, args ...any) { out("W", fmt.Sprintf(f, args...)) }
func Error(args ...any)              { out("E", fmt.Sprint(args...)) }
func Errorln(args ...any)            { out("E", fmt.Sprintln(args...)) }
func Errorf(f string, args ...any)   { out("E", fmt.Sprintf(f, args...)) }

func Exit(args ...any)             { exit(1, fmt.Sprint(args...)) }
func Exitln(args ...any)           { exit(1, fmt.Sprintln(args...)) }
func Exitf(f string, args ...any)  { exit(1, fmt.Sprintf(f, args...)) }
func Fatal(args ...any)            { exit(255, fmt.Sprint(args...)) }
func Fatalln(args ...any)          { exit(255, fmt.Sprintln(args...)) }
func Fatalf(f string, args ...any) { exit(255, fmt.Sprintf(f, args...)) }

func exit(code int, msg string) {
	out("X", msg)
	if simrt.InRun() {
		simrt.Exit(code, msg)
	}
	fmt.Fprintln(os.Stderr, msg)
	os.Exit(code)
}

// Flush is a no-op.
func Flush() {}
