//go:build go1.25

// Package simsync replaces package sync in the instrumented copy of the
// repository. Inside a simulated run, lock acquisition is a scheduling point
// and blocking on a lock is known to the scheduler; outside a run the types
// fall back to the real sync primitives, so the instrumented code keeps its
// ordinary behaviour (the repository's own tests pass against it).
package simsync

import (
	"sync"
	"unsafe"

	"github.com/openconfig/gnmi/zzverif/simrt"
)

// Re-exports of the parts of sync that need no simulation.
type (
	Locker    = sync.Locker
	WaitGroup = sync.WaitGroup
	Pool      = sync.Pool
	Map       = sync.Map
	Cond      = sync.Cond
)

// NewCond is sync.NewCond.
func NewCond(l Locker) *Cond { return sync.NewCond(l) }

// ---------------------------------------------------------------- Mutex

// Mutex is a simulated sync.Mutex.
type Mutex struct {
	real sync.Mutex
	held bool
	wq   simrt.WaitQ
}

//go:norace
func (m *Mutex) try() bool {
	if m.held {
		return false
	}
	m.held = true
	return true
}

//go:norace
func (m *Mutex) release() bool {
	was := m.held
	m.held = false
	m.wq.Bump()
	return was
}

// Lock locks m.
func (m *Mutex) Lock() {
	if !simrt.InRun() {
		m.real.Lock()
		return
	}
	t := simrt.Current()
	if t.PassThrough() {
		if t == nil && !m.try() {
			panic("simsync: goroutine outside the simulation blocked on a held Mutex")
		}
		return
	}
	t.Yield("Mutex.Lock")
	for !m.try() {
		t.Block(&m.wq, "Mutex.Lock")
		if t.PassThrough() {
			return
		}
	}
	simrt.RaceAcquire(unsafe.Pointer(m))
}

// TryLock tries to lock m.
func (m *Mutex) TryLock() bool {
	if !simrt.InRun() {
		return m.real.TryLock()
	}
	t := simrt.Current()
	if t.PassThrough() {
		return m.try()
	}
	t.Yield("Mutex.TryLock")
	if m.try() {
		simrt.RaceAcquire(unsafe.Pointer(m))
		return true
	}
	return false
}

// Unlock unlocks m.
func (m *Mutex) Unlock() {
	if !simrt.InRun() {
		m.real.Unlock()
		return
	}
	t := simrt.Current()
	if t != nil && t.PassThrough() {
		m.release()
		return
	}
	simrt.RaceRelease(unsafe.Pointer(m))
	if !m.release() && t != nil {
		panic("sync: unlock of unlocked mutex")
	}
	afterUnlock(t)
}

// YieldAfterUnlock makes every Unlock / RUnlock a scheduling point of its own
// (besides the one before every Lock): another task can then run between a
// lock release and whatever the releasing task does next without a lock. A
// harness sets it for its runs (and resets it); off, a task keeps running
// from an unlock to its next synchronisation operation.
var YieldAfterUnlock bool

func afterUnlock(t *simrt.Task) {
	if YieldAfterUnlock && t != nil {
		t.Yield("unlock")
	}
}

// ---------------------------------------------------------------- RWMutex

// RWMutex is a simulated sync.RWMutex with Go's writer preference: a waiting
// writer blocks new readers.
type RWMutex struct {
	real     sync.RWMutex
	readers  int
	writer   bool
	wwaiting int
	wq       simrt.WaitQ
	rsem     int32 // race: released by writers, acquired by readers and writers
	wsem     int32 // race: release-merged by readers, acquired by writers
}

//go:norace
func (m *RWMutex) tryR() bool {
	if m.writer || m.wwaiting > 0 {
		return false
	}
	m.readers++
	return true
}

//go:norace
func (m *RWMutex) tryW() bool {
	if m.writer || m.readers > 0 {
		return false
	}
	m.writer = true
	return true
}

//go:norace
func (m *RWMutex) addWaiting(d int) { m.wwaiting += d }

//go:norace
func (m *RWMutex) releaseR() bool {
	ok := m.readers > 0
	if ok {
		m.readers--
	}
	m.wq.Bump()
	return ok
}

//go:norace
func (m *RWMutex) releaseW() bool {
	ok := m.writer
	m.writer = false
	m.wq.Bump()
	return ok
}

// RLock locks m for reading.
func (m *RWMutex) RLock() {
	if !simrt.InRun() {
		m.real.RLock()
		return
	}
	t := simrt.Current()
	if t.PassThrough() {
		if t == nil && !m.tryR() {
			panic("simsync: goroutine outside the simulation blocked on a held RWMutex (RLock)")
		}
		return
	}
	t.Yield("RWMutex.RLock")
	for !m.tryR() {
		t.Block(&m.wq, "RWMutex.RLock")
		if t.PassThrough() {
			return
		}
	}
	simrt.RaceAcquire(unsafe.Pointer(&m.rsem))
}

// TryRLock tries to lock m for reading.
func (m *RWMutex) TryRLock() bool {
	if !simrt.InRun() {
		return m.real.TryRLock()
	}
	t := simrt.Current()
	if t.PassThrough() {
		return m.tryR()
	}
	t.Yield("RWMutex.TryRLock")
	if m.tryR() {
		simrt.RaceAcquire(unsafe.Pointer(&m.rsem))
		return true
	}
	return false
}

// RUnlock undoes a single RLock.
func (m *RWMutex) RUnlock() {
	if !simrt.InRun() {
		m.real.RUnlock()
		return
	}
	t := simrt.Current()
	if t != nil && t.PassThrough() {
		m.releaseR()
		return
	}
	simrt.RaceReleaseMerge(unsafe.Pointer(&m.wsem))
	if !m.releaseR() && t != nil {
		panic("sync: RUnlock of unlocked RWMutex")
	}
	afterUnlock(t)
}

// Lock locks m for writing.
func (m *RWMutex) Lock() {
	if !simrt.InRun() {
		m.real.Lock()
		return
	}
	t := simrt.Current()
	if t.PassThrough() {
		if t == nil && !m.tryW() {
			panic("simsync: goroutine outside the simulation blocked on a held RWMutex (Lock)")
		}
		return
	}
	t.Yield("RWMutex.Lock")
	if !m.tryW() {
		m.addWaiting(1)
		for {
			t.Block(&m.wq, "RWMutex.Lock")
			if t.PassThrough() {
				return
			}
			if m.tryW() {
				break
			}
		}
		m.addWaiting(-1)
	}
	simrt.RaceAcquire(unsafe.Pointer(&m.rsem))
	simrt.RaceAcquire(unsafe.Pointer(&m.wsem))
}

// TryLock tries to lock m for writing.
func (m *RWMutex) TryLock() bool {
	if !simrt.InRun() {
		return m.real.TryLock()
	}
	t := simrt.Current()
	if t.PassThrough() {
		return m.tryW()
	}
	t.Yield("RWMutex.TryLock")
	if m.tryW() {
		simrt.RaceAcquire(unsafe.Pointer(&m.rsem))
		simrt.RaceAcquire(unsafe.Pointer(&m.wsem))
		return true
	}
	return false
}

// Unlock unlocks m for writing.
func (m *RWMutex) Unlock() {
	if !simrt.InRun() {
		m.real.Unlock()
		return
	}
	t := simrt.Current()
	if t != nil && t.PassThrough() {
		m.releaseW()
		return
	}
	simrt.RaceRelease(unsafe.Pointer(&m.rsem))
	if !m.releaseW() && t != nil {
		panic("sync: Unlock of unlocked RWMutex")
	}
	afterUnlock(t)
}

// RLocker returns a Locker that uses RLock/RUnlock.
func (m *RWMutex) RLocker() Locker { return (*rlocker)(m) }

type rlocker RWMutex

func (r *rlocker) Lock()   { (*RWMutex)(r).RLock() }
func (r *rlocker) Unlock() { (*RWMutex)(r).RUnlock() }

// ---------------------------------------------------------------- Once

// Once is a simulated sync.Once.
type Once struct {
	real sync.Once
	done bool
	m    Mutex
}

//go:norace
func (o *Once) isDone() bool { return o.done }

//go:norace
func (o *Once) setDone() { o.done = true }

// Do calls f if and only if Do is being called for the first time.
func (o *Once) Do(f func()) {
	if !simrt.InRun() {
		o.real.Do(f)
		return
	}
	if o.isDone() {
		simrt.RaceAcquire(unsafe.Pointer(&o.done))
		return
	}
	o.m.Lock()
	defer o.m.Unlock()
	if !o.isDone() {
		defer func() {
			simrt.RaceRelease(unsafe.Pointer(&o.done))
			o.setDone()
		}()
		f()
	}
}

// OnceFunc, OnceValue mirror the sync helpers (real semantics; not used by
// the repository's concurrent paths).
func OnceFunc(f func()) func() { return sync.OnceFunc(f) }
