//go:build go1.25

// Package simatomic replaces sync/atomic in the instrumented copy: the same
// API on top of the real atomics, with a scheduling point before every
// operation. Atomic operations are synchronisation operations: code that
// coordinates goroutines through them (a lock-free fast path, a published
// pointer, a counter consulted before taking a lock) has interleavings that
// differ observably around them, so the seeded scheduler must be able to
// switch tasks there. Outside a run the yield is a no-op.
package simatomic

import (
	"sync/atomic"
	"unsafe"

	"github.com/openconfig/gnmi/zzverif/simrt"
)

func y() { simrt.Yield("atomic") }

func AddInt32(addr *int32, delta int32) int32         { y(); return atomic.AddInt32(addr, delta) }
func AddInt64(addr *int64, delta int64) int64         { y(); return atomic.AddInt64(addr, delta) }
func AddUint32(addr *uint32, delta uint32) uint32     { y(); return atomic.AddUint32(addr, delta) }
func AddUint64(addr *uint64, delta uint64) uint64     { y(); return atomic.AddUint64(addr, delta) }
func AddUintptr(addr *uintptr, delta uintptr) uintptr { y(); return atomic.AddUintptr(addr, delta) }

func LoadInt32(addr *int32) int32                     { y(); return atomic.LoadInt32(addr) }
func LoadInt64(addr *int64) int64                     { y(); return atomic.LoadInt64(addr) }
func LoadUint32(addr *uint32) uint32                  { y(); return atomic.LoadUint32(addr) }
func LoadUint64(addr *uint64) uint64                  { y(); return atomic.LoadUint64(addr) }
func LoadUintptr(addr *uintptr) uintptr               { y(); return atomic.LoadUintptr(addr) }
func LoadPointer(addr *unsafe.Pointer) unsafe.Pointer { y(); return atomic.LoadPointer(addr) }

func StoreInt32(addr *int32, val int32)                     { y(); atomic.StoreInt32(addr, val) }
func StoreInt64(addr *int64, val int64)                     { y(); atomic.StoreInt64(addr, val) }
func StoreUint32(addr *uint32, val uint32)                  { y(); atomic.StoreUint32(addr, val) }
func StoreUint64(addr *uint64, val uint64)                  { y(); atomic.StoreUint64(addr, val) }
func StoreUintptr(addr *uintptr, val uintptr)               { y(); atomic.StoreUintptr(addr, val) }
func StorePointer(addr *unsafe.Pointer, val unsafe.Pointer) { y(); atomic.StorePointer(addr, val) }

func SwapInt32(addr *int32, new int32) int32         { y(); return atomic.SwapInt32(addr, new) }
func SwapInt64(addr *int64, new int64) int64         { y(); return atomic.SwapInt64(addr, new) }
func SwapUint32(addr *uint32, new uint32) uint32     { y(); return atomic.SwapUint32(addr, new) }
func SwapUint64(addr *uint64, new uint64) uint64     { y(); return atomic.SwapUint64(addr, new) }
func SwapUintptr(addr *uintptr, new uintptr) uintptr { y(); return atomic.SwapUintptr(addr, new) }
func SwapPointer(addr *unsafe.Pointer, new unsafe.Pointer) unsafe.Pointer {
	y()
	return atomic.SwapPointer(addr, new)
}

func CompareAndSwapInt32(addr *int32, old, new int32) bool {
	y()
	return atomic.CompareAndSwapInt32(addr, old, new)
}
func CompareAndSwapInt64(addr *int64, old, new int64) bool {
	y()
	return atomic.CompareAndSwapInt64(addr, old, new)
}
func CompareAndSwapUint32(addr *uint32, old, new uint32) bool {
	y()
	return atomic.CompareAndSwapUint32(addr, old, new)
}
func CompareAndSwapUint64(addr *uint64, old, new uint64) bool {
	y()
	return atomic.CompareAndSwapUint64(addr, old, new)
}
func CompareAndSwapUintptr(addr *uintptr, old, new uintptr) bool {
	y()
	return atomic.CompareAndSwapUintptr(addr, old, new)
}
func CompareAndSwapPointer(addr *unsafe.Pointer, old, new unsafe.Pointer) bool {
	y()
	return atomic.CompareAndSwapPointer(addr, old, new)
}

// Int32 mirrors atomic.Int32.
type Int32 struct{ v atomic.Int32 }

func (x *Int32) Load() int32                        { y(); return x.v.Load() }
func (x *Int32) Store(val int32)                    { y(); x.v.Store(val) }
func (x *Int32) Swap(new int32) int32               { y(); return x.v.Swap(new) }
func (x *Int32) CompareAndSwap(old, new int32) bool { y(); return x.v.CompareAndSwap(old, new) }
func (x *Int32) Add(delta int32) int32              { y(); return x.v.Add(delta) }

// Int64 mirrors atomic.Int64.
type Int64 struct{ v atomic.Int64 }

func (x *Int64) Load() int64                        { y(); return x.v.Load() }
func (x *Int64) Store(val int64)                    { y(); x.v.Store(val) }
func (x *Int64) Swap(new int64) int64               { y(); return x.v.Swap(new) }
func (x *Int64) CompareAndSwap(old, new int64) bool { y(); return x.v.CompareAndSwap(old, new) }
func (x *Int64) Add(delta int64) int64              { y(); return x.v.Add(delta) }

// Uint32 mirrors atomic.Uint32.
type Uint32 struct{ v atomic.Uint32 }

func (x *Uint32) Load() uint32                        { y(); return x.v.Load() }
func (x *Uint32) Store(val uint32)                    { y(); x.v.Store(val) }
func (x *Uint32) Swap(new uint32) uint32              { y(); return x.v.Swap(new) }
func (x *Uint32) CompareAndSwap(old, new uint32) bool { y(); return x.v.CompareAndSwap(old, new) }
func (x *Uint32) Add(delta uint32) uint32             { y(); return x.v.Add(delta) }

// Uint64 mirrors atomic.Uint64.
type Uint64 struct{ v atomic.Uint64 }

func (x *Uint64) Load() uint64                        { y(); return x.v.Load() }
func (x *Uint64) Store(val uint64)                    { y(); x.v.Store(val) }
func (x *Uint64) Swap(new uint64) uint64              { y(); return x.v.Swap(new) }
func (x *Uint64) CompareAndSwap(old, new uint64) bool { y(); return x.v.CompareAndSwap(old, new) }
func (x *Uint64) Add(delta uint64) uint64             { y(); return x.v.Add(delta) }

// Uintptr mirrors atomic.Uintptr.
type Uintptr struct{ v atomic.Uintptr }

func (x *Uintptr) Load() uintptr                        { y(); return x.v.Load() }
func (x *Uintptr) Store(val uintptr)                    { y(); x.v.Store(val) }
func (x *Uintptr) Swap(new uintptr) uintptr             { y(); return x.v.Swap(new) }
func (x *Uintptr) CompareAndSwap(old, new uintptr) bool { y(); return x.v.CompareAndSwap(old, new) }
func (x *Uintptr) Add(delta uintptr) uintptr            { y(); return x.v.Add(delta) }

// Bool mirrors atomic.Bool.
type Bool struct{ v atomic.Bool }

func (x *Bool) Load() bool                        { y(); return x.v.Load() }
func (x *Bool) Store(val bool)                    { y(); x.v.Store(val) }
func (x *Bool) Swap(new bool) bool                { y(); return x.v.Swap(new) }
func (x *Bool) CompareAndSwap(old, new bool) bool { y(); return x.v.CompareAndSwap(old, new) }

// Pointer mirrors atomic.Pointer.
type Pointer[T any] struct{ v atomic.Pointer[T] }

func (x *Pointer[T]) Load() *T                        { y(); return x.v.Load() }
func (x *Pointer[T]) Store(val *T)                    { y(); x.v.Store(val) }
func (x *Pointer[T]) Swap(new *T) *T                  { y(); return x.v.Swap(new) }
func (x *Pointer[T]) CompareAndSwap(old, new *T) bool { y(); return x.v.CompareAndSwap(old, new) }

// Value mirrors atomic.Value.
type Value struct{ v atomic.Value }

func (x *Value) Load() any                        { y(); return x.v.Load() }
func (x *Value) Store(val any)                    { y(); x.v.Store(val) }
func (x *Value) Swap(new any) any                 { y(); return x.v.Swap(new) }
func (x *Value) CompareAndSwap(old, new any) bool { y(); return x.v.CompareAndSwap(old, new) }
