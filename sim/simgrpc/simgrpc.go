//go:build go1.25

// Package simgrpc is the simulated transport: a small in-memory gRPC that
// sits under the real generated stubs (grpc.ClientConnInterface,
// grpc.ServiceRegistrar, grpc.ClientStream, grpc.ServerStream) and replaces
// google.golang.org/grpc in the packages that dial or serve.
//
// Semantics kept faithful to gRPC because oracles depend on them: per
// direction FIFO and reliable; every message is marshalled at Send and
// unmarshalled at Recv; Send blocks when the per-stream window is full; when
// the handler returns the server context is cancelled, the client drains
// buffered messages and then receives the status; contexts cancel blocked
// operations. Faults (delays, breaks, dial failures) enter through Hooks.
package simgrpc

import (
	"context"
	"errors"
	"fmt"
	"io"
	gonet "net"
	"strings"
	"sync"
	"sync/atomic"
	"time"

	"github.com/openconfig/gnmi/zzverif/simnet"
	"github.com/openconfig/gnmi/zzverif/simrt"
	"google.golang.org/grpc"
	"google.golang.org/grpc/codes"
	"google.golang.org/grpc/connectivity"
	"google.golang.org/grpc/credentials"
	"google.golang.org/grpc/metadata"
	"google.golang.org/grpc/peer"
	"google.golang.org/grpc/status"
	"google.golang.org/protobuf/proto"
)

// Aliases of the real option and descriptor types.
type (
	DialOption              = grpc.DialOption
	ServerOption            = grpc.ServerOption
	CallOption              = grpc.CallOption
	ServiceDesc             = grpc.ServiceDesc
	StreamDesc              = grpc.StreamDesc
	ClientStream            = grpc.ClientStream
	ServerStream            = grpc.ServerStream
	ServiceRegistrar        = grpc.ServiceRegistrar
	ClientConnInterface     = grpc.ClientConnInterface
	UnaryServerInterceptor  = grpc.UnaryServerInterceptor
	StreamServerInterceptor = grpc.StreamServerInterceptor
)

// Option constructors are the real ones (they are inert data for the simulator).
var (
	WithBlock                = grpc.WithBlock
	WithInsecure             = grpc.WithInsecure
	WithDefaultCallOptions   = grpc.WithDefaultCallOptions
	WithTransportCredentials = grpc.WithTransportCredentials
	WithPerRPCCredentials    = grpc.WithPerRPCCredentials
	WithContextDialer        = grpc.WithContextDialer
	MaxCallRecvMsgSize       = grpc.MaxCallRecvMsgSize
	Creds                    = grpc.Creds
	Errorf                   = status.Errorf
	Code                     = status.Code
)

// ---------------------------------------------------------------- hooks

// Hooks are the fault seams of the transport, set by the harness per run.
type Hooks struct {
	// Window is the per-direction message window of new streams (0 = unbuffered).
	Window int
	// Dial decides the outcome of a dial: nil = connect, error = fail.
	// delay is simulated dial latency.
	Dial func(ctx context.Context, target string) (delay time.Duration, err error)
	// NewStream may refuse or delay a stream before the handler starts.
	NewStream func(method, target string) error
	// OnServerSend / OnClientSend are called before a message is queued and
	// may return a delay and/or an error that breaks the stream.
	OnServerSend func(s *Stream, n int) (time.Duration, error)
	OnClientSend func(s *Stream, n int) (time.Duration, error)
	// StreamCreated lets the harness keep a handle on every stream.
	StreamCreated func(s *Stream)
	// OnClose is called on every ClientConn.Close.
	OnClose func(cc *ClientConn)
}

var hooks atomic.Pointer[Hooks]

// SetHooks installs h (nil restores defaults). Also resets per-run state.
func SetHooks(h *Hooks) {
	if h == nil {
		h = &Hooks{Window: 8}
	}
	hooks.Store(h)
	simnet.Reset()
	regMu.Lock()
	servers = map[string]*Server{}
	regMu.Unlock()
	atomic.StoreInt64(&Stats.Dials, 0)
	atomic.StoreInt64(&Stats.Connected, 0)
	atomic.StoreInt64(&Stats.Closes, 0)
}

func getHooks() *Hooks {
	if h := hooks.Load(); h != nil {
		return h
	}
	return &Hooks{Window: 8}
}

// Stats counts transport events of the run.
var Stats struct{ Dials, Closes, Connected int64 }

// ---------------------------------------------------------------- stream

// Stream is one bidirectional RPC.
type Stream struct {
	Method string
	Target string // address dialled
	ID     int64

	sctx     context.Context // server side context
	scancel  context.CancelFunc
	cctx     context.Context // client side context
	c2s, s2c chan []byte
	sendDone chan struct{} // closed by client CloseSend
	closeSnd sync.Once
	done     chan struct{} // closed when the RPC has ended (handler returned or broken)
	finish   sync.Once
	st       error // final status (nil = OK); valid after done is closed
	nS, nC   int   // messages sent by server / client
	// Sent records every message handed to the server side Send, in order;
	// SentNs the virtual time (ns since the run started) of each.
	Sent   [][]byte
	SentNs []int64
}

var streamSeq int64

func newStream(cctx context.Context, method, target string) *Stream {
	h := getHooks()
	sctx, cancel := context.WithCancel(context.Background())
	sctx = peer.NewContext(sctx, &peer.Peer{Addr: &gonet.TCPAddr{IP: gonet.IPv4(127, 0, 0, 1), Port: 5000 + int(atomic.AddInt64(&streamSeq, 1)%1000)}})
	if md, ok := metadata.FromOutgoingContext(cctx); ok {
		sctx = metadata.NewIncomingContext(sctx, md.Copy())
	}
	return &Stream{Method: method, Target: target, ID: atomic.AddInt64(&streamSeq, 1), sctx: sctx, scancel: cancel, cctx: cctx,
		c2s: make(chan []byte, h.Window), s2c: make(chan []byte, h.Window), sendDone: make(chan struct{}), done: make(chan struct{})}
}

// End terminates the RPC with the given status (nil = OK). Used when the
// handler returns and by fault injection (Break).
func (s *Stream) End(err error) {
	s.finish.Do(func() {
		s.st = err
		s.scancel()
		close(s.done)
	})
}

// Break is the stream-break fault: both sides see the RPC end with code.
func (s *Stream) Break(code codes.Code, msg string) { s.End(status.Error(code, msg)) }

// Done is closed when the RPC has ended.
func (s *Stream) Done() <-chan struct{} { return s.done }

// Status returns the final status (valid after Done).
func (s *Stream) Status() error { return s.st }

// ServerContext returns the context the handler sees.
func (s *Stream) ServerContext() context.Context { return s.sctx }

func ctxStatus(err error) error {
	switch err {
	case nil:
		return nil
	case context.Canceled:
		return status.Error(codes.Canceled, err.Error())
	case context.DeadlineExceeded:
		return status.Error(codes.DeadlineExceeded, err.Error())
	}
	return status.Error(codes.Unknown, err.Error())
}

// blockingSend queues b on ch unless stop fires first. It is a scheduling
// point; a send that has to wait is known to the scheduler as a native block.
func blockingSend(ch chan []byte, b []byte, stops ...<-chan struct{}) int {
	simrt.Yield("grpc.send")
	for i, st := range stops {
		select {
		case <-st:
			return i + 1
		default:
		}
	}
	select {
	case ch <- b:
		return 0
	default:
	}
	var s1, s2 <-chan struct{}
	if len(stops) > 0 {
		s1 = stops[0]
	}
	if len(stops) > 1 {
		s2 = stops[1]
	}
	r := 0
	select {
	case ch <- b:
	case <-s1:
		r = 1
	case <-s2:
		r = 2
	}
	simrt.PostBlock()
	return r
}

// ---- server side

type serverStream struct{ s *Stream }

// ServerSide returns the grpc.ServerStream of s.
func (s *Stream) ServerSide() grpc.ServerStream { return &serverStream{s} }

func (ss *serverStream) SetHeader(metadata.MD) error  { return nil }
func (ss *serverStream) SendHeader(metadata.MD) error { return nil }
func (ss *serverStream) SetTrailer(metadata.MD)       {}
func (ss *serverStream) Context() context.Context     { return ss.s.sctx }

func (ss *serverStream) SendMsg(m any) error {
	s := ss.s
	pm, ok := m.(proto.Message)
	if !ok {
		return status.Errorf(codes.Internal, "simgrpc: cannot marshal %T", m)
	}
	b, err := proto.Marshal(pm)
	if err != nil {
		return status.Errorf(codes.Internal, "simgrpc: marshal: %v", err)
	}
	s.nS++
	s.Sent = append(s.Sent, b)
	if r := simrt.Active(); r != nil {
		s.SentNs = append(s.SentNs, int64(r.Now()))
	}
	if h := getHooks(); h.OnServerSend != nil {
		d, ferr := h.OnServerSend(s, s.nS)
		if d > 0 {
			simrt.Sleep(d)
		}
		if ferr != nil {
			s.End(ferr)
			return ferr
		}
	}
	if blockingSend(s.s2c, b, s.sctx.Done()) != 0 {
		if s.st != nil {
			return s.st
		}
		return ctxStatus(s.sctx.Err())
	}
	return nil
}

func (ss *serverStream) RecvMsg(m any) error {
	s := ss.s
	simrt.Yield("grpc.recv")
	var b []byte
	select {
	case b = <-s.c2s:
	default:
		select {
		case <-s.sctx.Done():
			return ctxStatus(s.sctx.Err())
		default:
		}
		select {
		case <-s.sendDone:
			// client closed its side: drain what is left, then EOF
			select {
			case b = <-s.c2s:
			default:
				return io.EOF
			}
		default:
			got := false
			select {
			case b = <-s.c2s:
				got = true
			case <-s.sendDone:
			case <-s.sctx.Done():
			}
			simrt.PostBlock()
			if !got {
				select {
				case b = <-s.c2s:
				default:
					if s.sctx.Err() != nil {
						return ctxStatus(s.sctx.Err())
					}
					return io.EOF
				}
			}
		}
	}
	return proto.Unmarshal(b, m.(proto.Message))
}

// ---- client side

type clientStream struct{ s *Stream }

// ClientSide returns the grpc.ClientStream of s.
func (s *Stream) ClientSide() grpc.ClientStream { return &clientStream{s} }

func (cs *clientStream) Header() (metadata.MD, error) { return nil, nil }
func (cs *clientStream) Trailer() metadata.MD         { return nil }
func (cs *clientStream) Context() context.Context     { return cs.s.cctx }

func (cs *clientStream) CloseSend() error {
	cs.s.closeSnd.Do(func() { close(cs.s.sendDone) })
	return nil
}

func (cs *clientStream) SendMsg(m any) error {
	s := cs.s
	b, err := proto.Marshal(m.(proto.Message))
	if err != nil {
		return status.Errorf(codes.Internal, "simgrpc: marshal: %v", err)
	}
	s.nC++
	if h := getHooks(); h.OnClientSend != nil {
		d, ferr := h.OnClientSend(s, s.nC)
		if d > 0 {
			simrt.Sleep(d)
		}
		if ferr != nil {
			s.End(ferr)
			return io.EOF
		}
	}
	switch blockingSend(s.c2s, b, s.done, s.cctx.Done()) {
	case 1:
		return io.EOF // the RPC has ended; RecvMsg reports the status
	case 2:
		s.End(ctxStatus(s.cctx.Err()))
		return ctxStatus(s.cctx.Err())
	}
	return nil
}

func (cs *clientStream) RecvMsg(m any) error {
	s := cs.s
	simrt.Yield("grpc.recv")
	var b []byte
	select {
	case b = <-s.s2c:
	default:
		select {
		case <-s.cctx.Done():
			s.End(ctxStatus(s.cctx.Err()))
			return ctxStatus(s.cctx.Err())
		default:
		}
		ended := false
		select {
		case <-s.done:
			ended = true
		default:
			got := false
			select {
			case b = <-s.s2c:
				got = true
			case <-s.done:
			case <-s.cctx.Done():
			}
			simrt.PostBlock()
			if !got {
				if s.cctx.Err() != nil {
					s.End(ctxStatus(s.cctx.Err()))
					return ctxStatus(s.cctx.Err())
				}
				ended = true
			}
		}
		if ended {
			// drain messages sent before the RPC ended
			select {
			case b = <-s.s2c:
			default:
				if s.st == nil {
					return io.EOF
				}
				return s.st
			}
		}
	}
	return proto.Unmarshal(b, m.(proto.Message))
}

// ---------------------------------------------------------------- server

// Server is a simulated grpc.Server.
type Server struct {
	mu        sync.Mutex
	services  map[string]*service
	lis       []gonet.Listener
	stopped   chan struct{}
	stopOnce  sync.Once
	streams   []*Stream
	isStopped bool
}

type service struct {
	desc *grpc.ServiceDesc
	impl any
}

var (
	regMu   sync.Mutex
	servers = map[string]*Server{} // port -> server
)

// NewServer mirrors grpc.NewServer.
func NewServer(opts ...grpc.ServerOption) *Server {
	return &Server{services: map[string]*service{}, stopped: make(chan struct{})}
}

// RegisterService implements grpc.ServiceRegistrar.
func (s *Server) RegisterService(desc *grpc.ServiceDesc, impl any) {
	s.mu.Lock()
	defer s.mu.Unlock()
	s.services[desc.ServiceName] = &service{desc: desc, impl: impl}
}

// GetServiceInfo mirrors grpc.Server (used by reflection; inert).
func (s *Server) GetServiceInfo() map[string]grpc.ServiceInfo { return nil }

// Serve registers the server at the listener's address and blocks until Stop.
func (s *Server) Serve(lis gonet.Listener) error {
	p := simnet.Port(lis.Addr().String())
	s.mu.Lock()
	if s.isStopped {
		s.mu.Unlock()
		lis.Close()
		return grpc.ErrServerStopped // as grpc.Server.Serve does after Stop
	}
	s.lis = append(s.lis, lis)
	regMu.Lock()
	servers[p] = s
	regMu.Unlock()
	s.mu.Unlock()
	simrt.Recv(s.stopped)
	return nil
}

// Stop ends every stream and unregisters the server.
func (s *Server) Stop() {
	s.stopOnce.Do(func() {
		regMu.Lock()
		for p, x := range servers {
			if x == s {
				delete(servers, p)
			}
		}
		regMu.Unlock()
		s.mu.Lock()
		s.isStopped = true // no stream can be added after the snapshot below
		ls, sts := s.lis, s.streams
		s.mu.Unlock()
		for _, l := range ls {
			l.Close()
		}
		for _, st := range sts {
			st.Break(codes.Unavailable, "server stopped")
		}
		close(s.stopped)
	})
}

// GracefulStop is Stop.
func (s *Server) GracefulStop() { s.Stop() }

func lookupServer(target string) *Server {
	regMu.Lock()
	defer regMu.Unlock()
	return servers[simnet.Port(target)]
}

// StartStream runs the handler of method on this server for a new stream
// whose client side is returned (used by harnesses that drive a server
// directly, and by ClientConn.NewStream).
func (s *Server) StartStream(cctx context.Context, method, target string) (*Stream, error) {
	parts := strings.Split(strings.TrimPrefix(method, "/"), "/")
	if len(parts) != 2 {
		return nil, status.Errorf(codes.Unimplemented, "malformed method %q", method)
	}
	s.mu.Lock()
	svc := s.services[parts[0]]
	s.mu.Unlock()
	if svc == nil {
		return nil, status.Errorf(codes.Unimplemented, "unknown service %s", parts[0])
	}
	var sd *grpc.StreamDesc
	for i := range svc.desc.Streams {
		if svc.desc.Streams[i].StreamName == parts[1] {
			sd = &svc.desc.Streams[i]
		}
	}
	if sd == nil {
		return nil, status.Errorf(codes.Unimplemented, "unknown method %s", method)
	}
	st := newStream(cctx, method, target)
	s.mu.Lock()
	if s.isStopped {
		s.mu.Unlock()
		return nil, status.Error(codes.Unavailable, "server stopped")
	}
	s.streams = append(s.streams, st)
	s.mu.Unlock()
	if h := getHooks(); h.StreamCreated != nil {
		h.StreamCreated(st)
	}
	simrt.GoNamed("rpc:"+parts[1], func() {
		err := sd.Handler(svc.impl, st.ServerSide())
		if err != nil {
			if _, ok := status.FromError(err); !ok {
				err = status.Error(codes.Unknown, err.Error())
			}
		}
		st.End(err)
	})
	return st, nil
}

// ---------------------------------------------------------------- client conn

// ClientConn is a simulated grpc.ClientConn.
type ClientConn struct {
	target string
	mu     sync.Mutex
	closed bool
	ctx    context.Context
	cancel context.CancelFunc
	// Closes counts Close calls (C16).
	Closes int
}

// Target returns the dialled address.
func (cc *ClientConn) Target() string { return cc.target }

// GetState mirrors grpc.ClientConn.GetState.
func (cc *ClientConn) GetState() connectivity.State {
	cc.mu.Lock()
	defer cc.mu.Unlock()
	if cc.closed {
		return connectivity.Shutdown
	}
	return connectivity.Ready
}

// ErrClosing mirrors grpc.ErrClientConnClosing.
var ErrClosing = status.Error(codes.Canceled, "grpc: the client connection is closing")

// Close closes the connection; streams on it end with Canceled.
func (cc *ClientConn) Close() error {
	if h := getHooks(); h.OnClose != nil {
		h.OnClose(cc)
	}
	cc.mu.Lock()
	cc.Closes++
	if cc.closed {
		cc.mu.Unlock()
		return ErrClosing
	}
	cc.closed = true
	cc.mu.Unlock()
	atomic.AddInt64(&Stats.Closes, 1)
	cc.cancel()
	return nil
}

// NewStream implements grpc.ClientConnInterface.
func (cc *ClientConn) NewStream(ctx context.Context, desc *grpc.StreamDesc, method string, opts ...grpc.CallOption) (grpc.ClientStream, error) {
	simrt.Yield("grpc.newstream")
	cc.mu.Lock()
	closed := cc.closed
	cc.mu.Unlock()
	if closed {
		return nil, ErrClosing
	}
	if err := ctx.Err(); err != nil {
		return nil, ctxStatus(err)
	}
	if h := getHooks(); h.NewStream != nil {
		if err := h.NewStream(method, cc.target); err != nil {
			return nil, err
		}
	}
	srv := lookupServer(cc.target)
	if srv == nil {
		return nil, status.Errorf(codes.Unavailable, "connection refused: %s", cc.target)
	}
	// The stream dies with the RPC context and with the connection.
	sctx, cancel := context.WithCancel(ctx)
	stop := context.AfterFunc(cc.ctx, cancel)
	st, err := srv.StartStream(sctx, method, cc.target)
	if err != nil {
		cancel()
		stop()
		return nil, err
	}
	context.AfterFunc(sctx, func() {
		// cancellation of the client context ends the RPC on both sides
		st.End(ctxStatus(sctx.Err()))
	})
	_ = stop
	return st.ClientSide(), nil
}

// Invoke implements grpc.ClientConnInterface (unary calls are not simulated).
func (cc *ClientConn) Invoke(ctx context.Context, method string, args, reply any, opts ...grpc.CallOption) error {
	return status.Error(codes.Unimplemented, "simgrpc: unary RPCs are not simulated")
}

// DialContext mirrors grpc.DialContext (always behaves as WithBlock: the
// repository dials with WithBlock everywhere).
func DialContext(ctx context.Context, target string, opts ...grpc.DialOption) (*ClientConn, error) {
	simrt.Yield("grpc.dial")
	atomic.AddInt64(&Stats.Dials, 1)
	if err := ctx.Err(); err != nil {
		return nil, err
	}
	h := getHooks()
	var delay time.Duration
	if h.Dial != nil {
		var err error
		delay, err = h.Dial(ctx, target)
		if delay > 0 {
			tm := time.NewTimer(delay)
			switch simrt.Select(false, simrt.CaseRecv(tm.C), simrt.CaseRecv(ctx.Done())) {
			case 1:
				tm.Stop()
				return nil, ctx.Err()
			}
		}
		if err != nil {
			return nil, err
		}
	} else if lookupServer(target) == nil {
		// WithBlock on an address nobody listens on: wait for the context.
		simrt.Recv(ctx.Done())
		return nil, fmt.Errorf("context deadline exceeded dialing %s: %w", target, ctx.Err())
	}
	cctx, cancel := context.WithCancel(context.Background())
	atomic.AddInt64(&Stats.Connected, 1)
	return &ClientConn{target: target, ctx: cctx, cancel: cancel}, nil
}

// NewConn returns a connected ClientConn without dialling (for scripted dial
// functions in harnesses).
func NewConn(target string) *ClientConn {
	cctx, cancel := context.WithCancel(context.Background())
	return &ClientConn{target: target, ctx: cctx, cancel: cancel}
}

// Dial mirrors grpc.Dial.
func Dial(target string, opts ...grpc.DialOption) (*ClientConn, error) {
	return DialContext(context.Background(), target, opts...)
}

// NewClient mirrors grpc.NewClient.
func NewClient(target string, opts ...grpc.DialOption) (*ClientConn, error) {
	return DialContext(context.Background(), target, opts...)
}

var _ = credentials.NewTLS
var _ = errors.New
