//go:build go1.25

// Package reflection is an inert stand-in for grpc/reflection.
package reflection

// Register does nothing.
func Register(any) {}
