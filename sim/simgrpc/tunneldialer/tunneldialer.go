//go:build go1.25

// Package tunneldialer is an inert stand-in for grpctunnel/dialer: tunnel
// targets are constructed but never dialled in simulation.
package tunneldialer

import (
	"context"
	"errors"

	"github.com/openconfig/gnmi/zzverif/simgrpc"
	"github.com/openconfig/grpctunnel/tunnel"
	"google.golang.org/grpc"
)

// ClientDialer mirrors dialer.ClientDialer.
type ClientDialer struct{}

// ServerDialer mirrors dialer.ServerDialer.
type ServerDialer struct{}

// FromServer mirrors dialer.FromServer.
func FromServer(s *tunnel.Server) (*ServerDialer, error) {
	if s == nil {
		return nil, errors.New("tunnel server is nil")
	}
	return &ServerDialer{}, nil
}

// DialContext always fails: no tunnel target is simulated.
func (d *ServerDialer) DialContext(ctx context.Context, target, targetType string, opts ...grpc.DialOption) (*simgrpc.ClientConn, error) {
	return nil, errors.New("simulated tunnel dialer: no tunnel targets")
}
