//go:build go1.25

// Package cachemodel is the executable reference model of the collector's
// cache, transcribed from the property statements (C02, C03, C14, C15): per
// target a prefix-free map from index path to (timestamp, content). It shares
// no code with cache, ctree, path or value.
package cachemodel

import (
	"fmt"
	"sort"
	"strings"

	pb "github.com/openconfig/gnmi/proto/gnmi"
	"github.com/openconfig/gnmi/zzverif/gen"
	"google.golang.org/protobuf/proto"
)

// Opts mirrors the cache options the statements mention.
type Opts struct {
	FutureNs    int64 `json:"future_ns"`
	EventDriven bool  `json:"event_driven"`
}

// Leaf is one stored leaf.
type Leaf struct {
	TS      int64
	Content string // canonical value (or atomic container content)
	Repr    string // canonical serialisation of the whole stored notification
	Atomic  bool
}

// Counters are the per-target counters C15 talks about.
type Counters struct {
	Leaves, Added, Deleted           int64
	Accepted, MustEmit, Suppressible int64
	Stale, Future, Empty, Errors     int64
	DeletesSubmitted                 int64
	Submitted                        int64
	Ambiguous                        bool // a may-outcome happened: exact counter equalities are off until the next reset
}

// Target is the model of one target.
type Target struct {
	Leaves map[string]*Leaf
	Latest int64 // greatest accepted non-metadata timestamp, 0 = none
	C      Counters
}

// NewTarget returns an empty target.
func NewTarget() *Target { return &Target{Leaves: map[string]*Leaf{}} }

// FE is a feed entry (expected or observed).
type FE struct {
	Kind    string // upd | del
	Key     string
	Content string // upd only
	May     bool   // expected entries only: may be absent
}

func (f FE) String() string {
	s := f.Kind + " " + gen.Show(f.Key)
	if f.Kind == "upd" {
		s += " = " + f.Content
	}
	if f.May {
		s += " (may)"
	}
	return s
}

// Expect is what the statements allow for one submitted notification.
type Expect struct {
	Classes []string // allowed result classes: ok stale future error
	Groups  [][]FE   // feed entries, in groups whose internal order is free
	Note    string
	// Ambiguous: a notification with several updates had at least one update
	// whose future-threshold verdict depends on which reading of an advancing
	// clock it was checked against; the single result class cannot tell which
	// updates were accepted, so the model cannot follow this target further.
	Ambiguous bool
}

func (e *Expect) allow(c ...string) { e.Classes = c }

// IsMeta reports whether a key lies in the metadata subtree.
func IsMeta(key string) bool {
	p := gen.Unkey(key)
	return len(p) > 0 && p[0] == "meta"
}

func repr(n *pb.Notification) string {
	b, _ := proto.MarshalOptions{Deterministic: true}.Marshal(n)
	return string(b)
}

// conflicts reports whether key cannot be added next to the stored leaves
// (it would pass through a leaf or land on a branch).
func (t *Target) conflicts(key string) bool {
	p := gen.Unkey(key)
	for k := range t.Leaves {
		kp := gen.Unkey(k)
		if gen.ProperPrefix(kp, p) || gen.ProperPrefix(p, kp) {
			return true
		}
	}
	return false
}

// Apply runs one notification through the model. clock holds every reading
// the collector's clock could have returned while the call was in progress
// (the recorded reading when there is one).
func (t *Target) Apply(n *pb.Notification, o Opts, clock []int64) Expect {
	var e Expect
	nu, nd := len(n.Update), len(n.Delete)
	switch {
	case n.Atomic:
		if nd > 0 {
			e.allow("error")
			t.C.Errors++
			return e
		}
		if nu == 0 {
			t.C.Empty++
			e.allow("ok")
			return e
		}
		t.C.Submitted++
		single := proto.Clone(n).(*pb.Notification)
		cls, g := t.applyLeaf(gen.Key(gen.LeafKey(n.Prefix, nil)), single, o, clock)
		e.Classes = cls
		if len(g) > 0 {
			e.Groups = append(e.Groups, g)
		}
	case nu+nd > 1:
		allOK := true
		mayFail := false
		for _, u := range n.Update {
			t.C.Submitted++
			single := &pb.Notification{Timestamp: n.Timestamp, Prefix: n.Prefix, Update: []*pb.Update{u}}
			cls, g := t.applyLeaf(gen.Key(gen.LeafKey(n.Prefix, u.Path)), single, o, clock)
			if len(cls) > 1 {
				mayFail = true
			} else if cls[0] != "ok" {
				allOK = false
			}
			if len(g) > 0 {
				e.Groups = append(e.Groups, g)
			}
		}
		for _, d := range n.Delete {
			if g := t.applyDelete(gen.LeafKey(n.Prefix, d), n.Timestamp); len(g) > 0 {
				e.Groups = append(e.Groups, g)
			}
		}
		e.Ambiguous = mayFail && len(clock) > 1
		switch {
		case !allOK:
			e.allow("error")
		case mayFail:
			e.allow("ok", "error")
		default:
			e.allow("ok")
		}
	case nu == 1:
		t.C.Submitted++
		cls, g := t.applyLeaf(gen.Key(gen.LeafKey(n.Prefix, n.Update[0].Path)), n, o, clock)
		e.Classes = cls
		if len(g) > 0 {
			e.Groups = append(e.Groups, g)
		}
	case nd == 1:
		if g := t.applyDelete(gen.LeafKey(n.Prefix, n.Delete[0]), n.Timestamp); len(g) > 0 {
			e.Groups = append(e.Groups, g)
		}
		e.allow("ok")
	default:
		t.C.Empty++
		e.allow("ok")
	}
	return e
}

// applyLeaf applies a single-leaf notification (one update, or an atomic
// container) stored at key.
func (t *Target) applyLeaf(key string, n *pb.Notification, o Opts, clock []int64) ([]string, []FE) {
	content := gen.CanonContent(n)
	rp := repr(n)
	ts := n.Timestamp
	meta := IsMeta(key)
	old := t.Leaves[key]
	if old == nil {
		if t.conflicts(key) {
			t.C.Errors++
			return []string{"error"}, nil
		}
		t.Leaves[key] = &Leaf{TS: ts, Content: content, Repr: rp, Atomic: n.Atomic}
		if !meta {
			t.C.Leaves++
			t.C.Added++
			t.C.Accepted++
			t.C.MustEmit++
			if ts > t.Latest {
				t.Latest = ts
			}
		}
		return []string{"ok"}, []FE{{Kind: "upd", Key: key, Content: content}}
	}
	switch {
	case ts < old.TS:
		if !meta {
			t.C.Stale++
		}
		return []string{"stale"}, nil
	case ts == old.TS:
		if rp == old.Repr {
			if !meta {
				t.C.Stale++
			}
			return []string{"stale"}, nil
		}
		if content == old.Content {
			// Same timestamp, same value, different encoding of the same
			// leaf: the statement allows either reading of "identical".
			if !meta {
				t.C.Ambiguous = true
			}
			return []string{"stale", "ok"}, []FE{{Kind: "upd", Key: key, Content: content, May: true}}
		}
	default:
		if o.FutureNs > 0 && t.Latest > 0 && ts-t.Latest > o.FutureNs && len(clock) > 0 {
			ahead, notAhead := false, false
			for _, now := range clock {
				if ts-now > o.FutureNs {
					ahead = true
				} else {
					notAhead = true
				}
			}
			if ahead && !notAhead {
				if !meta {
					t.C.Future++
				}
				return []string{"future"}, nil
			}
			if ahead && notAhead {
				// the clock moved across the boundary during the call
				if !meta {
					t.C.Ambiguous = true
				}
				// fall through as accepted-or-rejected: resolve pessimistically as "may".
				return t.accept(key, old, n, content, rp, o, true)
			}
		}
	}
	return t.accept(key, old, n, content, rp, o, false)
}

func (t *Target) accept(key string, old *Leaf, n *pb.Notification, content, rp string, o Opts, mayReject bool) ([]string, []FE) {
	meta := IsMeta(key)
	suppressible := o.EventDriven && !n.Atomic && !old.Atomic && content == old.Content
	if mayReject {
		// Outcome unknown: the caller resolves it from the observed result.
		return []string{"ok", "future"}, []FE{{Kind: "upd", Key: key, Content: content, May: true}}
	}
	t.Leaves[key] = &Leaf{TS: n.Timestamp, Content: content, Repr: rp, Atomic: n.Atomic}
	if !meta {
		t.C.Accepted++
		if suppressible {
			t.C.Suppressible++
		} else {
			t.C.MustEmit++
		}
		if n.Timestamp > t.Latest {
			t.Latest = n.Timestamp
		}
	}
	return []string{"ok"}, []FE{{Kind: "upd", Key: key, Content: content, May: suppressible}}
}

// ResolveFuture is called when Apply returned the classes {ok,future}: the
// observed class decides which way the model goes.
func (t *Target) ResolveFuture(key string, n *pb.Notification, accepted bool) {
	if !accepted {
		return
	}
	t.Leaves[key] = &Leaf{TS: n.Timestamp, Content: gen.CanonContent(n), Repr: repr(n), Atomic: n.Atomic}
	if n.Timestamp > t.Latest && !IsMeta(key) {
		t.Latest = n.Timestamp
	}
}

// applyDelete removes the leaves matched by pattern whose timestamp is older
// than ts. Leaves matched only by a trailing glob one element past them are
// "may" entries: Settle removes them if the feed announced them.
func (t *Target) applyDelete(pattern []string, ts int64) []FE {
	t.C.DeletesSubmitted++
	var g []FE
	keys := make([]string, 0, len(t.Leaves))
	for k := range t.Leaves {
		keys = append(keys, k)
	}
	sort.Strings(keys)
	for _, k := range keys {
		l := t.Leaves[k]
		if l.TS >= ts {
			continue
		}
		switch gen.Match(pattern, gen.Unkey(k)) {
		case gen.Must:
			g = append(g, FE{Kind: "del", Key: k})
			t.remove(k)
		case gen.May:
			g = append(g, FE{Kind: "del", Key: k, May: true})
		}
	}
	return g
}

func (t *Target) remove(k string) {
	if _, ok := t.Leaves[k]; !ok {
		return
	}
	delete(t.Leaves, k)
	if !IsMeta(k) {
		t.C.Leaves--
		t.C.Deleted++
	}
}

// Settle applies the observed outcome of "may" delete entries.
func (t *Target) Settle(observed []FE, exp Expect) {
	for _, g := range exp.Groups {
		for _, fe := range g {
			if fe.Kind == "del" && fe.May {
				for _, ob := range observed {
					if ob.Kind == "del" && ob.Key == fe.Key {
						t.remove(fe.Key)
						t.C.Ambiguous = true
					}
				}
			}
		}
	}
}

// Reset is the model of resetting the target: all non-metadata leaves go,
// counters and latest timestamp return to their initial values.
func (t *Target) Reset() {
	for k := range t.Leaves {
		if !IsMeta(k) {
			delete(t.Leaves, k)
		}
	}
	t.Latest = 0
	t.C = Counters{}
}

// Content renders the non-metadata content (key=content@ts) sorted.
func (t *Target) Content(withTS bool) string {
	keys := make([]string, 0, len(t.Leaves))
	for k := range t.Leaves {
		if !IsMeta(k) {
			keys = append(keys, k)
		}
	}
	sort.Strings(keys)
	var sb strings.Builder
	for _, k := range keys {
		l := t.Leaves[k]
		if withTS {
			fmt.Fprintf(&sb, "%s=%s@%d\n", gen.Show(k), l.Content, l.TS)
		} else {
			fmt.Fprintf(&sb, "%s=%s\n", gen.Show(k), l.Content)
		}
	}
	return sb.String()
}

// MatchFeed checks an observed feed sequence against the expectation: the
// observed entries must be a concatenation, in group order, of subsets of the
// groups that contain every non-may entry exactly once. Metadata entries in
// the observation are ignored.
func MatchFeed(observed []FE, exp Expect) string {
	var obs []FE
	for _, o := range observed {
		if !IsMeta(o.Key) {
			obs = append(obs, o)
		}
	}
	gi := 0
	used := make([][]bool, len(exp.Groups))
	for i, g := range exp.Groups {
		used[i] = make([]bool, len(g))
	}
	for _, o := range obs {
		found := false
		for ; gi < len(exp.Groups) && !found; gi++ {
			for k, fe := range exp.Groups[gi] {
				if !used[gi][k] && fe.Kind == o.Kind && fe.Key == o.Key && (fe.Kind == "del" || fe.Content == o.Content) {
					used[gi][k] = true
					found = true
					break
				}
			}
			if found {
				break
			}
		}
		if !found {
			return fmt.Sprintf("feed entry %q was not expected here (or not at all)", o.String())
		}
	}
	for i, g := range exp.Groups {
		for k, fe := range g {
			if !used[i][k] && !fe.May {
				// A leaf that an earlier delete of the same notification may
				// have removed (and did) cannot be removed again.
				already := false
				if fe.Kind == "del" {
					for i2 := 0; i2 < i; i2++ {
						for k2, fe2 := range exp.Groups[i2] {
							if used[i2][k2] && fe2.May && fe2.Kind == "del" && fe2.Key == fe.Key {
								already = true
							}
						}
					}
				}
				if !already {
					return fmt.Sprintf("expected feed entry %q is missing", fe.String())
				}
			}
		}
	}
	return ""
}

// FeedEntries converts a notification delivered to the change feed into
// entries (the target is returned separately).
func FeedEntries(n *pb.Notification) (target string, out []FE) {
	target = n.GetPrefix().GetTarget()
	if n.Atomic {
		return target, []FE{{Kind: "upd", Key: gen.Key(gen.LeafKey(n.Prefix, nil)), Content: gen.CanonContent(n)}}
	}
	for _, u := range n.Update {
		single := &pb.Notification{Update: []*pb.Update{u}}
		out = append(out, FE{Kind: "upd", Key: gen.Key(gen.LeafKey(n.Prefix, u.Path)), Content: gen.CanonContent(single)})
	}
	for _, d := range n.Delete {
		out = append(out, FE{Kind: "del", Key: gen.Key(gen.LeafKey(n.Prefix, d))})
	}
	return target, out
}

// Replay is the state a feed consumer reconstructs: per target key -> content.
type Replay map[string]map[string]string

// Feed applies one feed notification to the replay.
func (r Replay) Feed(n *pb.Notification) {
	target, es := FeedEntries(n)
	m := r[target]
	if m == nil {
		m = map[string]string{}
		r[target] = m
	}
	for _, e := range es {
		switch e.Kind {
		case "upd":
			// an update (or atomic container) replaces whatever is at or below its key
			p := gen.Unkey(e.Key)
			for k := range m {
				if gen.ProperPrefix(p, gen.Unkey(k)) {
					delete(m, k)
				}
			}
			m[e.Key] = e.Content
		case "del":
			pat := gen.Unkey(e.Key)
			for k := range m {
				if gen.Match(pat, gen.Unkey(k)) != gen.No {
					delete(m, k)
				}
			}
		}
	}
}

// String renders the replay of one target.
func (r Replay) String(target string, withMeta bool) string {
	m := r[target]
	keys := make([]string, 0, len(m))
	for k := range m {
		if withMeta || !IsMeta(k) {
			keys = append(keys, k)
		}
	}
	sort.Strings(keys)
	var sb strings.Builder
	for _, k := range keys {
		fmt.Fprintf(&sb, "%s=%s\n", gen.Show(k), m[k])
	}
	return sb.String()
}
