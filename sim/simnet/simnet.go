//go:build go1.25

// Package simnet replaces package net in the packages that own a network
// seam: listeners are names in a per-run registry, nothing touches a socket.
package simnet

import (
	"errors"
	"fmt"
	"net"
	"strings"
	"sync"
)

// Aliases so that signatures written against package net keep compiling.
type (
	Listener = net.Listener
	Conn     = net.Conn
	Addr     = net.Addr
	Dialer   = net.Dialer
	IP       = net.IP
)

type addr string

func (a addr) Network() string { return "sim" }
func (a addr) String() string  { return string(a) }

// SimListener is a registered listening address.
type SimListener struct {
	a      addr
	closed chan struct{}
	once   sync.Once
}

var (
	mu        sync.Mutex
	listeners = map[string]*SimListener{}
	nextPort  = 40000
)

// Reset forgets every listener (start of a run).
func Reset() {
	mu.Lock()
	defer mu.Unlock()
	listeners = map[string]*SimListener{}
	nextPort = 40000
}

// Port normalises "host:port", ":port", "port" to the port string.
func Port(address string) string {
	if i := strings.LastIndex(address, ":"); i >= 0 {
		return address[i+1:]
	}
	return address
}

// Listen registers a listener; port 0 picks a fresh port.
func Listen(network, address string) (Listener, error) {
	mu.Lock()
	defer mu.Unlock()
	p := Port(address)
	if p == "0" || p == "" {
		nextPort++
		p = fmt.Sprint(nextPort)
	}
	if _, ok := listeners[p]; ok {
		return nil, fmt.Errorf("listen %s %s: address already in use", network, address)
	}
	l := &SimListener{a: addr("127.0.0.1:" + p), closed: make(chan struct{})}
	listeners[p] = l
	return l, nil
}

// Lookup returns the listener registered for the address.
func Lookup(address string) *SimListener {
	mu.Lock()
	defer mu.Unlock()
	return listeners[Port(address)]
}

// Accept is never used by the simulated gRPC server; it blocks until Close.
func (l *SimListener) Accept() (net.Conn, error) {
	<-l.closed
	return nil, errors.New("listener closed")
}

// Close unregisters the listener.
func (l *SimListener) Close() error {
	l.once.Do(func() {
		close(l.closed)
		mu.Lock()
		if listeners[Port(string(l.a))] == l {
			delete(listeners, Port(string(l.a)))
		}
		mu.Unlock()
	})
	return nil
}

// Addr returns the listener's address.
func (l *SimListener) Addr() net.Addr { return l.a }

// Closed is closed when the listener is closed.
func (l *SimListener) Closed() <-chan struct{} { return l.closed }
