//go:build go1.25

// Package gen holds the message generators and the harnesses' own reading of
// gNMI paths and values (index paths, value canonicalisation, wildcard
// matching). Nothing here calls path.ToStrings, value.Equal, match or ctree:
// the oracles must not share code with what they judge.
package gen

import (
	"fmt"
	"sort"
	"strings"

	pb "github.com/openconfig/gnmi/proto/gnmi"
	"github.com/openconfig/gnmi/zzverif/simrt"
)

// Elem is a path element with optional keys.
type Elem struct {
	N string            `json:"n"`
	K map[string]string `json:"k,omitempty"`
}

// Val is a typed value description.
type Val struct {
	Kind string   `json:"kind"` // int uint str bool dbl flt bytes ll json jsonietf dec ascii any none
	I    int64    `json:"i,omitempty"`
	S    string   `json:"s,omitempty"`
	L    []string `json:"l,omitempty"`
}

// Upd is one update of a notification.
type Upd struct {
	Path []Elem `json:"path"`
	Val  Val    `json:"val"`
	// Origin in the update path rather than in the prefix.
	Origin string `json:"origin,omitempty"`
	// Depr selects the deprecated Element / Value encodings.
	DeprPath bool `json:"depr_path,omitempty"`
	DeprVal  bool `json:"depr_val,omitempty"`
	NilPath  bool `json:"nil_path,omitempty"`
}

// Noti describes a notification.
type Noti struct {
	Target   string   `json:"target"`
	Origin   string   `json:"origin,omitempty"`
	Prefix   []Elem   `json:"prefix,omitempty"`
	DeprPfx  bool     `json:"depr_prefix,omitempty"`
	SharePfx int      `json:"share_prefix,omitempty"` // >0: reuse prefix object #n of the builder (aliasing)
	Atomic   bool     `json:"atomic,omitempty"`
	TS       int64    `json:"ts"`
	Ups      []Upd    `json:"ups,omitempty"`
	Dels     [][]Elem `json:"dels,omitempty"`
	DelDepr  bool     `json:"del_depr,omitempty"`
	NilPfx   bool     `json:"nil_prefix,omitempty"`
}

// ---------------------------------------------------------------- building

// Builder turns descriptions into protobufs. Prefix objects requested with
// SharePfx are created once per builder and reused, with spare capacity in
// their element slices, the way a caller that recycles prefix objects (or
// proto.Unmarshal's append growth) produces them.
type Builder struct {
	shared map[string]*pb.Path
}

// NewBuilder returns an empty builder.
func NewBuilder() *Builder { return &Builder{shared: map[string]*pb.Path{}} }

func pbElems(es []Elem, spare int) []*pb.PathElem {
	out := make([]*pb.PathElem, 0, len(es)+spare)
	for _, e := range es {
		pe := &pb.PathElem{Name: e.N}
		if len(e.K) > 0 {
			pe.Key = map[string]string{}
			for k, v := range e.K {
				pe.Key[k] = v
			}
		}
		out = append(out, pe)
	}
	return out
}

func flat(es []Elem) []string {
	var out []string
	for _, e := range es {
		out = append(out, e.N)
		out = append(out, sortedKeyVals(e.K)...)
	}
	return out
}

func sortedKeyVals(k map[string]string) []string {
	ks := make([]string, 0, len(k))
	for x := range k {
		ks = append(ks, x)
	}
	sort.Strings(ks)
	vs := make([]string, 0, len(k))
	for _, x := range ks {
		vs = append(vs, k[x])
	}
	return vs
}

// Path builds a pb.Path.
func Path(es []Elem, depr bool, spare int) *pb.Path {
	if depr {
		f := flat(es)
		el := make([]string, 0, len(f)+spare)
		return &pb.Path{Element: append(el, f...)}
	}
	return &pb.Path{Elem: pbElems(es, spare)}
}

// TypedValue builds a pb.TypedValue (nil for kind "none").
func TypedValue(v Val) *pb.TypedValue {
	switch v.Kind {
	case "int":
		return &pb.TypedValue{Value: &pb.TypedValue_IntVal{IntVal: v.I}}
	case "uint":
		return &pb.TypedValue{Value: &pb.TypedValue_UintVal{UintVal: uint64(v.I)}}
	case "str":
		return &pb.TypedValue{Value: &pb.TypedValue_StringVal{StringVal: v.S}}
	case "bool":
		return &pb.TypedValue{Value: &pb.TypedValue_BoolVal{BoolVal: v.I != 0}}
	case "dbl":
		return &pb.TypedValue{Value: &pb.TypedValue_DoubleVal{DoubleVal: float64(v.I) / 4}}
	case "flt":
		return &pb.TypedValue{Value: &pb.TypedValue_FloatVal{FloatVal: float32(v.I) / 4}}
	case "bytes":
		return &pb.TypedValue{Value: &pb.TypedValue_BytesVal{BytesVal: []byte(v.S)}}
	case "ll":
		sa := &pb.ScalarArray{}
		for _, s := range v.L {
			sa.Element = append(sa.Element, &pb.TypedValue{Value: &pb.TypedValue_StringVal{StringVal: s}})
		}
		return &pb.TypedValue{Value: &pb.TypedValue_LeaflistVal{LeaflistVal: sa}}
	case "json":
		return &pb.TypedValue{Value: &pb.TypedValue_JsonVal{JsonVal: []byte(v.S)}}
	case "jsonietf":
		return &pb.TypedValue{Value: &pb.TypedValue_JsonIetfVal{JsonIetfVal: []byte(v.S)}}
	case "dec":
		return &pb.TypedValue{Value: &pb.TypedValue_DecimalVal{DecimalVal: &pb.Decimal64{Digits: v.I, Precision: 2}}}
	case "ascii":
		return &pb.TypedValue{Value: &pb.TypedValue_AsciiVal{AsciiVal: v.S}}
	case "empty":
		return &pb.TypedValue{}
	}
	return nil
}

// Build builds the notification.
func (b *Builder) Build(n *Noti) *pb.Notification {
	out := &pb.Notification{Timestamp: n.TS, Atomic: n.Atomic}
	if !n.NilPfx {
		if n.SharePfx > 0 {
			k := fmt.Sprintf("%d|%s|%s|%v|%v", n.SharePfx, n.Target, n.Origin, n.Prefix, n.DeprPfx)
			p := b.shared[k]
			if p == nil {
				p = Path(n.Prefix, n.DeprPfx, 3)
				p.Target, p.Origin = n.Target, n.Origin
				b.shared[k] = p
			}
			out.Prefix = p
		} else {
			out.Prefix = Path(n.Prefix, n.DeprPfx, 0)
			out.Prefix.Target, out.Prefix.Origin = n.Target, n.Origin
		}
	}
	for _, u := range n.Ups {
		pu := &pb.Update{}
		if !u.NilPath {
			pu.Path = Path(u.Path, u.DeprPath, 1)
			pu.Path.Origin = u.Origin
		}
		tv := TypedValue(u.Val)
		if u.DeprVal && tv != nil {
			pu.Value = &pb.Value{Value: []byte(CanonVal(tv)), Type: pb.Encoding_JSON}
		} else {
			pu.Val = tv
		}
		out.Update = append(out.Update, pu)
	}
	for _, d := range n.Dels {
		out.Delete = append(out.Delete, Path(d, n.DelDepr, 1))
	}
	return out
}

// ---------------------------------------------------------------- reading

// Index is the harness's own index-path computation: element names, each
// followed by its key values ordered by key name; the deprecated element list
// when no structured elements are present.
func Index(p *pb.Path) []string {
	if p == nil {
		return nil
	}
	if len(p.Elem) == 0 {
		return append([]string(nil), p.Element...)
	}
	var out []string
	for _, e := range p.Elem {
		out = append(out, e.Name)
		out = append(out, sortedKeyVals(e.Key)...)
	}
	return out
}

// LeafKey is the index path of an update within its target as the cache files
// it: prefix origin (when set), prefix elements, path elements.
func LeafKey(prefix, path *pb.Path) []string {
	var out []string
	if o := prefix.GetOrigin(); o != "" {
		out = append(out, o)
	}
	out = append(out, Index(prefix)...)
	return append(out, Index(path)...)
}

// Key joins an index path (elements never contain the separator in generated data).
func Key(p []string) string { return strings.Join(p, "\x1f") }

// Unkey splits a key.
func Unkey(k string) []string {
	if k == "" {
		return nil
	}
	return strings.Split(k, "\x1f")
}

// Show renders a key for messages.
func Show(k string) string { return "/" + strings.Join(Unkey(k), "/") }

// CanonVal renders a TypedValue as a canonical string; different values give
// different strings, equal values equal strings.
func CanonVal(v *pb.TypedValue) string {
	if v == nil {
		return "nil"
	}
	switch x := v.Value.(type) {
	case nil:
		return "unset"
	case *pb.TypedValue_IntVal:
		return fmt.Sprintf("int:%d", x.IntVal)
	case *pb.TypedValue_UintVal:
		return fmt.Sprintf("uint:%d", x.UintVal)
	case *pb.TypedValue_StringVal:
		return fmt.Sprintf("str:%q", x.StringVal)
	case *pb.TypedValue_BoolVal:
		return fmt.Sprintf("bool:%v", x.BoolVal)
	case *pb.TypedValue_DoubleVal:
		return fmt.Sprintf("dbl:%v", x.DoubleVal)
	case *pb.TypedValue_FloatVal:
		return fmt.Sprintf("flt:%v", x.FloatVal)
	case *pb.TypedValue_BytesVal:
		return fmt.Sprintf("bytes:%x", x.BytesVal)
	case *pb.TypedValue_JsonVal:
		return fmt.Sprintf("json:%s", x.JsonVal)
	case *pb.TypedValue_JsonIetfVal:
		return fmt.Sprintf("jsonietf:%s", x.JsonIetfVal)
	case *pb.TypedValue_AsciiVal:
		return fmt.Sprintf("ascii:%q", x.AsciiVal)
	case *pb.TypedValue_DecimalVal:
		return fmt.Sprintf("dec:%d/%d", x.DecimalVal.GetDigits(), x.DecimalVal.GetPrecision())
	case *pb.TypedValue_LeaflistVal:
		var parts []string
		for _, e := range x.LeaflistVal.GetElement() {
			parts = append(parts, CanonVal(e))
		}
		return "ll:[" + strings.Join(parts, ",") + "]"
	}
	return fmt.Sprintf("other:%v", v)
}

// CanonUpdateVal covers the deprecated Value field as well.
func CanonUpdateVal(u *pb.Update) string {
	if u.GetVal() != nil {
		return CanonVal(u.Val)
	}
	if u.GetValue() != nil {
		return fmt.Sprintf("depr:%v:%s", u.Value.Type, u.Value.Value)
	}
	return "nil"
}

// CanonContent renders what a stored notification holds for its leaf: the
// single value, or for an atomic container every (sub-path, value) pair.
func CanonContent(n *pb.Notification) string {
	if n == nil {
		return "<nil>"
	}
	if n.Atomic {
		var parts []string
		for _, u := range n.Update {
			parts = append(parts, Key(Index(u.Path))+"="+CanonUpdateVal(u))
		}
		return "atomic{" + strings.Join(parts, ";") + "}"
	}
	if len(n.Update) == 0 {
		return "<no update>"
	}
	return CanonUpdateVal(n.Update[0])
}

// Match kinds for a wildcard pattern against a stored leaf path.
const (
	No   = 0
	Must = 1
	May  = 2 // trailing glob exactly one element past the leaf
)

// Match: element-wise, "*" matches any element, a pattern that is exhausted
// matches the whole subtree.
func Match(pat, leaf []string) int {
	n, l := len(pat), len(leaf)
	for i := 0; i < n && i < l; i++ {
		if pat[i] != "*" && pat[i] != leaf[i] {
			return No
		}
	}
	if n <= l {
		return Must
	}
	if n == l+1 && pat[l] == "*" {
		return May
	}
	return No
}

// ProperPrefix reports whether a is a proper prefix of b.
func ProperPrefix(a, b []string) bool {
	if len(a) >= len(b) {
		return false
	}
	for i := range a {
		if a[i] != b[i] {
			return false
		}
	}
	return true
}

// ---------------------------------------------------------------- random

// Universe is the small alphabet scenarios draw from.
type Universe struct {
	Targets []string
	Origins []string
	Leaves  [][]Elem // candidate full paths (prefix + path), split at random on use
}

var names = []string{"a", "b", "c"}

// RandElems draws a path of 1..maxLen elements, some keyed.
func RandElems(rng *simrt.Rand, maxLen int, glob float64) []Elem {
	n := 1 + rng.Pick(5, 6, 3, 1)
	if n > maxLen {
		n = maxLen
	}
	out := make([]Elem, n)
	for i := range out {
		if rng.Chance(glob) {
			out[i] = Elem{N: "*"}
			continue
		}
		out[i] = Elem{N: names[rng.Intn(len(names))]}
		switch rng.Pick(12, 3, 1) {
		case 1:
			out[i].K = map[string]string{"k": []string{"1", "2"}[rng.Intn(2)]}
		case 2:
			out[i].K = map[string]string{"k": []string{"1", "2"}[rng.Intn(2)], "j": "9"}
		}
	}
	return out
}

// NewUniverse draws targets, origins and a pool of leaf paths. Pool paths
// are drawn so that collisions (a leaf path that is a prefix of another) are
// possible but not dominant.
func NewUniverse(rng *simrt.Rand, nTargets int) *Universe {
	u := &Universe{Origins: []string{"", "", "oc", "x"}}
	for i := 0; i < nTargets; i++ {
		u.Targets = append(u.Targets, fmt.Sprintf("t%d", i))
	}
	for i := 3 + rng.Intn(5); i > 0; i-- {
		u.Leaves = append(u.Leaves, RandElems(rng, 4, 0))
	}
	return u
}

var valKinds = []string{"int", "int", "int", "str", "bool", "dbl", "uint", "bytes", "ll", "json", "dec", "flt", "jsonietf", "ascii"}

// RandVal draws a value; small makes repeats (equal values) likely.
func RandVal(rng *simrt.Rand, small bool) Val {
	k := valKinds[rng.Intn(len(valKinds))]
	n := int64(rng.Intn(1000))
	if small {
		n = int64(rng.Intn(3))
		k = []string{"int", "int", "str", "bool", "dbl", "ll", "ll", "json", "uint", "flt", "dec", "bytes"}[rng.Intn(12)]
	}
	switch k {
	case "str", "bytes", "ascii":
		return Val{Kind: k, S: fmt.Sprintf("s%d", n)}
	case "json", "jsonietf":
		return Val{Kind: k, S: fmt.Sprintf(`{"v":%d}`, n)}
	case "ll":
		if small {
			// lists of different lengths that share prefixes (also the empty list)
			all := []string{"p", "q", "r"}
			return Val{Kind: k, L: append([]string(nil), all[:rng.Intn(4)]...)}
		}
		return Val{Kind: k, L: []string{fmt.Sprintf("e%d", n), "z"}}
	case "bool":
		return Val{Kind: k, I: n % 2}
	}
	return Val{Kind: k, I: n}
}

// Split cuts a full path into prefix and path at a random point.
func Split(rng *simrt.Rand, full []Elem) (prefix, path []Elem) {
	c := rng.Intn(len(full) + 1)
	if rng.Chance(0.5) {
		c = 0
	}
	return append([]Elem(nil), full[:c]...), append([]Elem(nil), full[c:]...)
}

// ---------------------------------------------------------------- hostile

// HostileNoti draws a protobuf-valid but adversarial notification for target:
// empty and root paths, paths equal to or under "meta", prefix-only and
// path-only addressing, missing or empty values, deprecated encodings, type
// changes on existing leaves (also metadata leaves), atomic containers with
// an empty prefix, wildcard deletes, nil prefix / nil path, huge key sets.
func HostileNoti(rng *simrt.Rand, u *Universe, target string, ts int64) *Noti {
	n := &Noti{Target: target, TS: ts}
	metaNames := []string{"sync", "connected", "connectedAddress", "connectError", "targetLeaves", "targetLeavesAdded", "latestTimestamp", "targetSize", "nosuch"}
	hval := func() Val {
		switch rng.Pick(3, 2, 2, 2, 2, 6) {
		case 0:
			return Val{Kind: "none"}
		case 1:
			return Val{Kind: "empty"}
		case 2:
			return Val{Kind: "ascii", S: "x"}
		case 3:
			return Val{Kind: "dbl", I: int64(rng.Intn(3))}
		case 4:
			return Val{Kind: "ll"}
		}
		return RandVal(rng, true)
	}
	switch rng.Pick(10, 8, 10, 6, 8, 8, 4, 4, 6, 6, 5) {
	case 0: // empty full path update
		n.Ups = []Upd{{Path: nil, Val: hval()}}
	case 1: // empty full path delete
		n.Dels = [][]Elem{nil}
	case 2: // meta paths, right and wrong value types
		p := []Elem{{N: "meta"}}
		if rng.Chance(0.8) {
			p = append(p, Elem{N: metaNames[rng.Intn(len(metaNames))]})
		}
		if rng.Chance(0.3) {
			n.Prefix, p = p[:1], p[1:]
		}
		if rng.Chance(0.3) {
			n.Dels = [][]Elem{p}
		} else {
			n.Ups = []Upd{{Path: p, Val: hval()}}
		}
	case 3: // atomic with an element-less prefix
		n.Atomic = true
		n.Origin = u.Origins[rng.Intn(len(u.Origins))]
		n.Ups = []Upd{{Path: RandElems(rng, 2, 0), Val: hval()}}
		if rng.Chance(0.3) {
			n.Dels = [][]Elem{RandElems(rng, 2, 0.3)}
		}
	case 4: // wildcard deletes, also on an empty target
		n.Dels = [][]Elem{RandElems(rng, 3, 0.7)}
		if rng.Chance(0.5) {
			n.Dels = [][]Elem{{{N: "*"}}}
		}
	case 5: // value-less / odd-valued update of an ordinary (possibly existing) leaf
		full := u.Leaves[rng.Intn(len(u.Leaves))]
		n.Ups = []Upd{{Path: full, Val: hval(), DeprVal: rng.Chance(0.2)}}
	case 6: // nil prefix
		n.NilPfx = true
		n.Ups = []Upd{{Path: RandElems(rng, 2, 0), Val: hval()}}
	case 7: // nil path
		n.Ups = []Upd{{NilPath: true, Val: hval()}}
		if rng.Chance(0.5) {
			n.Prefix = RandElems(rng, 2, 0)
		}
	case 8: // prefix-only addressing, deprecated encodings mixed
		n.Prefix = RandElems(rng, 3, 0)
		n.DeprPfx = rng.Chance(0.5)
		n.Ups = []Upd{{Path: nil, Val: hval(), DeprPath: rng.Chance(0.5)}}
	case 9: // huge key set, empty names, glob names in updates
		e := Elem{N: []string{"", "*", "a"}[rng.Intn(3)], K: map[string]string{}}
		for i := 0; i < 1+rng.Intn(40); i++ {
			e.K[fmt.Sprintf("k%d", i)] = fmt.Sprintf("v%d", rng.Intn(3))
		}
		n.Ups = []Upd{{Path: []Elem{e}, Val: hval()}}
	case 10: // many updates and deletes with the same path
		p := RandElems(rng, 2, 0.2)
		for i := 0; i < 2+rng.Intn(4); i++ {
			n.Ups = append(n.Ups, Upd{Path: p, Val: hval()})
			n.Dels = append(n.Dels, p)
		}
	}
	return n
}

// UnusualFeatures names what is unusual about a (protobuf-valid) notification
// a peer sent; used to count hostile-peer faults per kind in the evidence.
func UnusualFeatures(n *pb.Notification) []string {
	var out []string
	add := func(s string) {
		for _, o := range out {
			if o == s {
				return
			}
		}
		out = append(out, s)
	}
	if n == nil {
		return []string{"nil-notification"}
	}
	if n.Prefix == nil {
		add("nil-prefix")
	}
	path := func(p *pb.Path, what string) {
		if p == nil {
			add("nil-" + what)
			return
		}
		if len(p.Element) > 0 { //nolint:staticcheck // deprecated encoding on purpose
			add("deprecated-" + what + "-elements")
		}
		for _, e := range p.Elem {
			if e == nil {
				add("nil-path-elem")
				continue
			}
			if e.Name == "" {
				add("empty-elem-name")
			}
			for k, v := range e.Key {
				if k == "" || v == "" {
					add("empty-key-or-value")
				}
			}
		}
	}
	if n.Prefix != nil {
		path(n.Prefix, "prefix")
	}
	full := func(p *pb.Path) []string {
		var s []string
		for _, q := range []*pb.Path{n.Prefix, p} {
			for _, e := range q.GetElem() {
				if e == nil {
					return []string{"?"}
				}
			}
			s = append(s, Index(q)...)
		}
		return s
	}
	for _, u := range n.Update {
		if u == nil {
			add("nil-update")
			continue
		}
		path(u.Path, "path")
		if u.Val == nil {
			if u.Value != nil { //nolint:staticcheck
				add("deprecated-value-encoding")
			} else {
				add("missing-value")
			}
		} else if u.Val.Value == nil {
			add("empty-typed-value")
		}
		if fp := full(u.Path); len(fp) == 0 {
			add("empty-full-path")
		} else if fp[0] == "meta" {
			add("metadata-subtree-path")
		}
	}
	for _, d := range n.Delete {
		path(d, "delete-path")
		if fp := full(d); len(fp) == 0 {
			add("empty-delete-path")
		} else if fp[0] == "meta" {
			add("metadata-subtree-delete")
		}
	}
	if len(n.Update) == 0 && len(n.Delete) == 0 {
		add("empty-notification")
	}
	if n.Atomic && len(n.Update) == 0 {
		add("atomic-without-updates")
	}
	return out
}
