// Command instrument rewrites a scratch copy of the gnmi module so that every
// source of nondeterminism is behind a seam owned by the simulator
// (DESIGN.md 3.2). It never touches /repo.
//
//	instrument -root <scratch module root> -report <file.json>
package main

import (
	"bytes"
	"encoding/json"
	"flag"
	"fmt"
	"go/ast"
	"go/importer"
	"go/parser"
	"go/printer"
	"go/token"
	"go/types"
	"io"
	"os"
	"os/exec"
	"path/filepath"
	"sort"
	"strconv"
	"strings"

	"verif/instrument/astutil"
)

const modPath = "github.com/openconfig/gnmi"
const simPath = modPath + "/zzverif/"

type listPkg struct {
	ImportPath string
	Dir        string
	Name       string
	GoFiles    []string
	Export     string
	Standard   bool
	Module     *struct{ Main bool }
	Error      *struct{ Err string }
}

type report struct {
	Files        int               `json:"files"`
	Rewrites     map[string]int    `json:"rewrites"`
	Uncontrolled []string          `json:"uncontrolled_sites"`
	MapRanges    []string          `json:"map_ranges"`
	Packages     []string          `json:"packages"`
	Imports      map[string]string `json:"import_substitutions"`
}

var rep = report{Rewrites: map[string]int{}, Imports: map[string]string{}}

// Import substitutions applied in every instrumented package.
var globalSubst = map[string]string{
	"sync":                   simPath + "simsync",
	"sync/atomic":            simPath + "simatomic",
	"github.com/golang/glog": simPath + "simlog",
}

// Import substitutions applied only in the packages that own a network seam.
var netPkgs = map[string]bool{
	modPath + "/connection":                       true,
	modPath + "/manager":                          true,
	modPath + "/client/gnmi":                      true,
	modPath + "/cmd/gnmi_collector":               true,
	modPath + "/cmd/gnmi_cli":                     true,
	modPath + "/testing/fake/gnmi":                true,
	modPath + "/testing/fake/testing/grpc/config": true,
}

var netSubst = map[string]string{
	"google.golang.org/grpc":            simPath + "simgrpc",
	"google.golang.org/grpc/reflection": simPath + "simgrpc/reflection",
	"net":                               simPath + "simnet",
	"github.com/openconfig/grpctunnel/dialer": simPath + "simgrpc/tunneldialer",
}

var skipDirs = []string{"/zzverif", "/bazel", "/proto/", "/testing/fake/gnmi/cmd", "/testing/fake/proto"}

func main() {
	root := flag.String("root", "", "scratch module root")
	reportFile := flag.String("report", "", "report file")
	goBin := flag.String("go", "go1.26.8", "go binary")
	net := flag.Bool("net", true, "apply network import substitutions (needs zzverif/simgrpc)")
	overlay := flag.String("overlay", "", "directory tree of extra files copied into the root after the rewrite (exports of the re-packaged main packages)")
	mains := flag.Bool("mains", true, "re-package the main packages")
	flag.Parse()
	if *root == "" {
		fatal("need -root")
	}
	if !*net {
		netPkgs = map[string]bool{}
	}
	if !*mains {
		mainPkgs = map[string]string{}
	}
	pkgs := goList(*root, *goBin)
	exports := map[string]string{}
	for _, p := range pkgs {
		if p.Export != "" {
			exports[p.ImportPath] = p.Export
		}
	}
	fset := token.NewFileSet()
	imp := importer.ForCompiler(fset, "gc", func(path string) (io.ReadCloser, error) {
		f, ok := exports[path]
		if !ok {
			return nil, fmt.Errorf("no export data for %q", path)
		}
		return os.Open(f)
	})
	for _, p := range pkgs {
		if p.Module == nil || !p.Module.Main || p.Standard {
			continue
		}
		rel := strings.TrimPrefix(p.ImportPath, modPath)
		skip := false
		for _, s := range skipDirs {
			if strings.HasPrefix(rel+"/", s) || strings.HasPrefix(rel, s) {
				skip = true
			}
		}
		if skip || len(p.GoFiles) == 0 {
			continue
		}
		instrumentPkg(fset, imp, p)
	}
	if *overlay != "" {
		copyOverlay(*overlay, *root)
	}
	sort.Strings(rep.Uncontrolled)
	sort.Strings(rep.Packages)
	if *reportFile != "" {
		b, _ := json.MarshalIndent(rep, "", " ")
		os.WriteFile(*reportFile, b, 0o644)
	}
}

// mainPkgs are the package main directories that are re-packaged as
// importable packages so that the shipped glue code (flag handling, request
// construction, the collector's Update closure) runs inside the simulation.
var mainPkgs = map[string]string{
	modPath + "/cmd/gnmi_collector": "gnmi_collector",
	modPath + "/cmd/gnmi_cli":       "gnmi_cli",
}

func copyOverlay(from, to string) {
	filepath.Walk(from, func(p string, fi os.FileInfo, err error) error {
		if err != nil || fi.IsDir() {
			return nil
		}
		rel, _ := filepath.Rel(from, p)
		dst := filepath.Join(to, rel)
		os.MkdirAll(filepath.Dir(dst), 0o755)
		b, err := os.ReadFile(p)
		if err != nil {
			fatal("overlay: %v", err)
		}
		if err := os.WriteFile(dst, b, 0o644); err != nil {
			fatal("overlay: %v", err)
		}
		return nil
	})
}

func fatal(f string, a ...any) {
	fmt.Fprintf(os.Stderr, "instrument: "+f+"\n", a...)
	os.Exit(2)
}

func goList(root, goBin string) []*listPkg {
	// The simulator and harness packages (zzverif/...) are written against
	// the instrumented code and do not compile before the rewrite: list the
	// repository's own packages only.
	lc := exec.Command(goBin, "list", "-e", "./...")
	lc.Dir = root
	lc.Stderr = os.Stderr
	lo, err := lc.Output()
	if err != nil {
		fatal("go list failed: %v", err)
	}
	args := []string{"list", "-export", "-deps", "-json=ImportPath,Dir,Name,GoFiles,Export,Standard,Module,Error"}
	for _, p := range strings.Fields(string(lo)) {
		if !strings.Contains(p, "/zzverif") {
			args = append(args, p)
		}
	}
	cmd := exec.Command(goBin, args...)
	cmd.Dir = root
	cmd.Stderr = os.Stderr
	out, err := cmd.Output()
	if err != nil {
		fatal("go list failed: %v", err)
	}
	dec := json.NewDecoder(bytes.NewReader(out))
	var res []*listPkg
	for dec.More() {
		p := &listPkg{}
		if err := dec.Decode(p); err != nil {
			fatal("decode go list: %v", err)
		}
		res = append(res, p)
	}
	return res
}

type fileCtx struct {
	fset    *token.FileSet
	info    *types.Info
	pkg     *listPkg
	file    *ast.File
	name    string
	n       int
	needSim bool
	skip    map[ast.Node]bool
	isCmd   bool
}

func (fc *fileCtx) tmp() string {
	fc.n++
	return "_zv" + strconv.Itoa(fc.n)
}

func (fc *fileCtx) pos(n ast.Node) string {
	p := fc.fset.Position(n.Pos())
	return fmt.Sprintf("%s:%d", filepath.Join(strings.TrimPrefix(fc.pkg.ImportPath, modPath+"/"), filepath.Base(p.Filename)), p.Line)
}

func instrumentPkg(fset *token.FileSet, imp types.Importer, p *listPkg) {
	var files []*ast.File
	var names []string
	for _, f := range p.GoFiles {
		path := filepath.Join(p.Dir, f)
		af, err := parser.ParseFile(fset, path, nil, parser.ParseComments|parser.SkipObjectResolution)
		if err != nil {
			fatal("parse %s: %v", path, err)
		}
		files = append(files, af)
		names = append(names, path)
	}
	info := &types.Info{
		Types: map[ast.Expr]types.TypeAndValue{},
		Uses:  map[*ast.Ident]types.Object{},
		Defs:  map[*ast.Ident]types.Object{},
	}
	conf := types.Config{Importer: imp, Error: func(err error) {}}
	_, err := conf.Check(p.ImportPath, fset, files, info)
	if err != nil {
		// Type errors in the package under test are the build's business
		// (exit 2 there); we still rewrite what we can.
		fmt.Fprintf(os.Stderr, "instrument: type-check %s: %v\n", p.ImportPath, err)
	}
	rep.Packages = append(rep.Packages, p.ImportPath)
	for i, af := range files {
		if strings.HasSuffix(names[i], ".pb.go") {
			continue
		}
		fc := &fileCtx{fset: fset, info: info, pkg: p, file: af, name: names[i], skip: map[ast.Node]bool{},
			isCmd: strings.Contains(p.ImportPath, "/cmd/")}
		fc.rewrite()
		fc.write()
		rep.Files++
	}
}

func count(k string) { rep.Rewrites[k]++ }

func sel(pkg, name string) *ast.SelectorExpr {
	return &ast.SelectorExpr{X: ast.NewIdent(pkg), Sel: ast.NewIdent(name)}
}

func call(fn ast.Expr, args ...ast.Expr) *ast.CallExpr { return &ast.CallExpr{Fun: fn, Args: args} }

func (fc *fileCtx) simCall(name string, args ...ast.Expr) *ast.CallExpr {
	fc.needSim = true
	return call(sel("zzsimrt", name), args...)
}

func (fc *fileCtx) isPkgSel(e ast.Expr, pkgPath, name string) bool {
	s, ok := e.(*ast.SelectorExpr)
	if !ok || s.Sel.Name != name {
		return false
	}
	id, ok := s.X.(*ast.Ident)
	if !ok {
		return false
	}
	pn, ok := fc.info.Uses[id].(*types.PkgName)
	return ok && pn.Imported().Path() == pkgPath
}

func (fc *fileCtx) isBuiltin(e ast.Expr, name string) bool {
	id, ok := e.(*ast.Ident)
	if !ok || id.Name != name {
		return false
	}
	_, ok = fc.info.Uses[id].(*types.Builtin)
	return ok
}

// inlineable reports whether evaluating e later instead of now cannot change
// its value (literals, nil, constants, function literals).
func (fc *fileCtx) inlineable(e ast.Expr) bool {
	switch x := e.(type) {
	case *ast.BasicLit, *ast.FuncLit:
		return true
	case *ast.CompositeLit:
		return len(x.Elts) == 0
	}
	if tv, ok := fc.info.Types[e]; ok {
		if tv.Value != nil || tv.IsNil() {
			return true
		}
	}
	return false
}

func (fc *fileCtx) rewrite() {
	if name, ok := mainPkgs[fc.pkg.ImportPath]; ok && fc.file.Name.Name == "main" {
		fc.file.Name = ast.NewIdent(name)
		for _, d := range fc.file.Decls {
			if fd, ok := d.(*ast.FuncDecl); ok && fd.Recv == nil && fd.Name.Name == "main" {
				fd.Name = ast.NewIdent("VerifMain")
			}
		}
		count("main-repackaged")
	}
	// Import substitutions.
	subst := map[string]string{}
	for k, v := range globalSubst {
		subst[k] = v
	}
	if netPkgs[fc.pkg.ImportPath] {
		for k, v := range netSubst {
			subst[k] = v
		}
	}
	for _, is := range fc.file.Imports {
		path, _ := strconv.Unquote(is.Path.Value)
		if np, ok := subst[path]; ok {
			if is.Name == nil {
				// keep the original package name visible in the file
				name := path[strings.LastIndex(path, "/")+1:]
				is.Name = ast.NewIdent(name)
			}
			is.Path = &ast.BasicLit{Kind: token.STRING, Value: strconv.Quote(np), ValuePos: is.Path.ValuePos}
			rep.Imports[path] = np
			count("import")
		}
	}

	// Classify range statements before the tree is modified.
	rangeKind := map[*ast.RangeStmt]string{}
	ast.Inspect(fc.file, func(n ast.Node) bool {
		if rs, ok := n.(*ast.RangeStmt); ok {
			if t := fc.info.TypeOf(rs.X); t != nil {
				switch t.Underlying().(type) {
				case *types.Map:
					rangeKind[rs] = "map"
				case *types.Chan:
					rangeKind[rs] = "chan"
				}
			} else {
				rep.Uncontrolled = append(rep.Uncontrolled, fc.pos(rs)+": range over expression of unknown type")
			}
		}
		return true
	})

	pre := func(c *astutil.Cursor) bool {
		if cc, ok := c.Node().(*ast.CommClause); ok && cc.Comm != nil {
			fc.skip[cc.Comm] = true
			switch s := cc.Comm.(type) {
			case *ast.ExprStmt:
				fc.skip[ast.Unparen(s.X)] = true
			case *ast.AssignStmt:
				if len(s.Rhs) == 1 {
					fc.skip[ast.Unparen(s.Rhs[0])] = true
				}
			}
		}
		return true
	}
	post := func(c *astutil.Cursor) bool {
		switch n := c.Node().(type) {
		case *ast.UnaryExpr:
			if n.Op == token.ARROW && !fc.skip[n] {
				fc.rewriteRecv(c, n)
			}
		case *ast.SendStmt:
			if !fc.skip[n] {
				fc.rewriteSend(c, n)
			}
		case *ast.SelectStmt:
			fc.rewriteSelect(c, n)
		case *ast.AssignStmt:
			fc.rewriteMapAssign(c, n)
		case *ast.GoStmt:
			fc.rewriteGo(c, n)
		case *ast.RangeStmt:
			switch rangeKind[n] {
			case "map":
				fc.rewriteMapRange(c, n)
			case "chan":
				fc.rewriteChanRange(c, n)
			}
		case *ast.CallExpr:
			switch {
			case fc.isPkgSel(n.Fun, "time", "Sleep"):
				n.Fun = sel("zzsimrt", "Sleep")
				fc.needSim = true
				count("sleep")
			case fc.isBuiltin(n.Fun, "close") && len(n.Args) == 1:
				n.Fun = sel("zzsimrt", "Close")
				fc.needSim = true
				count("close")
			case fc.isCmd && fc.isPkgSel(n.Fun, "os", "Exit") && len(n.Args) == 1:
				n.Fun = sel("zzsimrt", "Exit")
				n.Args = append(n.Args, &ast.BasicLit{Kind: token.STRING, Value: `"os.Exit"`})
				fc.needSim = true
				count("exit")
			case fc.isPkgSel(n.Fun, "time", "AfterFunc"), fc.isPkgSel(n.Fun, "time", "After"), fc.isPkgSel(n.Fun, "time", "Tick"):
				rep.Uncontrolled = append(rep.Uncontrolled, fc.pos(n)+": time.After/AfterFunc/Tick call")
			}
		}
		return true
	}
	astutil.Apply(fc.file, pre, post)

	if fc.needSim {
		addImport(fc.file, "zzsimrt", simPath+"simrt")
	}
	fc.dropUnusedImports()
}

func (fc *fileCtx) rewriteRecv(c *astutil.Cursor, n *ast.UnaryExpr) {
	two := false
	switch p := c.Parent().(type) {
	case *ast.AssignStmt:
		two = len(p.Lhs) == 2 && len(p.Rhs) == 1
	case *ast.ValueSpec:
		two = len(p.Names) == 2 && len(p.Values) == 1
	case *ast.ParenExpr:
		// (<-c) inside a comma-ok assignment is vanishingly rare; treat as single.
	}
	if two {
		c.Replace(fc.simCall("Recv2", n.X))
	} else {
		c.Replace(fc.simCall("Recv", n.X))
	}
	count("recv")
}

func (fc *fileCtx) stmtSlotOK(c *astutil.Cursor) bool {
	switch p := c.Parent().(type) {
	case *ast.BlockStmt, *ast.CaseClause, *ast.CommClause, *ast.LabeledStmt:
		_ = p
		return true
	}
	return false
}

func (fc *fileCtx) rewriteSend(c *astutil.Cursor, n *ast.SendStmt) {
	if !fc.stmtSlotOK(c) {
		rep.Uncontrolled = append(rep.Uncontrolled, fc.pos(n)+": send statement in unsupported position")
		return
	}
	var stmts []ast.Stmt
	ch := ast.NewIdent(fc.tmp())
	stmts = append(stmts, &ast.AssignStmt{Lhs: []ast.Expr{ch}, Tok: token.DEFINE, Rhs: []ast.Expr{n.Chan}})
	var val ast.Expr = n.Value
	if !fc.inlineable(n.Value) {
		v := ast.NewIdent(fc.tmp())
		stmts = append(stmts, &ast.AssignStmt{Lhs: []ast.Expr{v}, Tok: token.DEFINE, Rhs: []ast.Expr{n.Value}})
		val = v
	}
	stmts = append(stmts, &ast.ExprStmt{X: fc.simCall("PreSend")})
	stmts = append(stmts, &ast.SelectStmt{Body: &ast.BlockStmt{List: []ast.Stmt{
		&ast.CommClause{Comm: &ast.SendStmt{Chan: ch, Value: val}},
		&ast.CommClause{Comm: nil, Body: []ast.Stmt{
			&ast.SendStmt{Chan: ch, Value: val},
			&ast.ExprStmt{X: fc.simCall("PostBlock")},
		}},
	}}})
	c.Replace(&ast.BlockStmt{List: stmts})
	count("send")
}

func (fc *fileCtx) rewriteSelect(c *astutil.Cursor, n *ast.SelectStmt) {
	var lhs, rhs []ast.Expr
	var clauses []ast.Stmt
	hasDefault := false
	idx := 0
	var caseIDs []ast.Expr
	for _, s := range n.Body.List {
		cc := s.(*ast.CommClause)
		if cc.Comm == nil {
			hasDefault = true
			clauses = append(clauses, &ast.CaseClause{List: nil, Body: cc.Body})
			continue
		}
		id := ast.NewIdent(fc.tmp())
		caseIDs = append(caseIDs, id)
		body := cc.Body
		switch cm := cc.Comm.(type) {
		case *ast.SendStmt:
			lhs = append(lhs, id)
			rhs = append(rhs, fc.simCall("CaseSend", cm.Chan, cm.Value))
		case *ast.ExprStmt:
			u := ast.Unparen(cm.X).(*ast.UnaryExpr)
			lhs = append(lhs, id)
			rhs = append(rhs, fc.simCall("CaseRecv", u.X))
		case *ast.AssignStmt:
			u := ast.Unparen(cm.Rhs[0]).(*ast.UnaryExpr)
			lhs = append(lhs, id)
			rhs = append(rhs, fc.simCall("CaseRecv", u.X))
			m := "Val"
			if len(cm.Lhs) == 2 {
				m = "Val2"
			}
			as := &ast.AssignStmt{Lhs: cm.Lhs, Tok: cm.Tok, Rhs: []ast.Expr{call(&ast.SelectorExpr{X: id, Sel: ast.NewIdent(m)})}}
			body = append([]ast.Stmt{as}, body...)
		}
		clauses = append(clauses, &ast.CaseClause{
			List: []ast.Expr{&ast.BasicLit{Kind: token.INT, Value: strconv.Itoa(idx)}},
			Body: body,
		})
		idx++
	}
	args := []ast.Expr{ast.NewIdent(strconv.FormatBool(hasDefault))}
	args = append(args, caseIDs...)
	sw := &ast.SwitchStmt{Tag: fc.simCall("Select", args...), Body: &ast.BlockStmt{List: clauses}}
	if len(lhs) > 0 {
		sw.Init = &ast.AssignStmt{Lhs: lhs, Tok: token.DEFINE, Rhs: rhs}
	}
	c.Replace(sw)
	count("select")
}

func (fc *fileCtx) rewriteGo(c *astutil.Cursor, n *ast.GoStmt) {
	if !fc.stmtSlotOK(c) {
		rep.Uncontrolled = append(rep.Uncontrolled, fc.pos(n)+": go statement in unsupported position")
		return
	}
	var stmts []ast.Stmt
	callExpr := n.Call
	fun := callExpr.Fun
	if _, ok := fun.(*ast.FuncLit); !ok {
		f := ast.NewIdent(fc.tmp())
		stmts = append(stmts, &ast.AssignStmt{Lhs: []ast.Expr{f}, Tok: token.DEFINE, Rhs: []ast.Expr{fun}})
		fun = f
	}
	var args []ast.Expr
	for _, a := range callExpr.Args {
		if fc.inlineable(a) {
			args = append(args, a)
			continue
		}
		v := ast.NewIdent(fc.tmp())
		stmts = append(stmts, &ast.AssignStmt{Lhs: []ast.Expr{v}, Tok: token.DEFINE, Rhs: []ast.Expr{a}})
		args = append(args, v)
	}
	inner := &ast.CallExpr{Fun: fun, Args: args, Ellipsis: callExpr.Ellipsis}
	if callExpr.Ellipsis != token.NoPos {
		inner.Ellipsis = 1
	}
	lit := &ast.FuncLit{Type: &ast.FuncType{Params: &ast.FieldList{}}, Body: &ast.BlockStmt{List: []ast.Stmt{&ast.ExprStmt{X: inner}}}}
	stmts = append(stmts, &ast.ExprStmt{X: fc.simCall("Go", lit)})
	if len(stmts) == 1 {
		c.Replace(stmts[0])
	} else {
		c.Replace(&ast.BlockStmt{List: stmts})
	}
	count("go")
}

// rewriteMapAssign inserts simrt.RegKey(k) before `m[k] = v` when m's key type
// has no natural order (pointer, interface, struct...): iteration order of
// such maps is the order of insertion (see simrt.RegKey).
func (fc *fileCtx) rewriteMapAssign(c *astutil.Cursor, n *ast.AssignStmt) {
	if n.Tok == token.DEFINE || !fc.stmtSlotOK(c) {
		return
	}
	var regs []ast.Stmt
	for _, l := range n.Lhs {
		ix, ok := l.(*ast.IndexExpr)
		if !ok {
			continue
		}
		t := fc.info.TypeOf(ix.X)
		if t == nil {
			continue
		}
		mt, ok := t.Underlying().(*types.Map)
		if !ok {
			continue
		}
		if b, ok := mt.Key().Underlying().(*types.Basic); ok && b.Info()&(types.IsString|types.IsInteger|types.IsFloat|types.IsBoolean) != 0 {
			continue
		}
		switch ix.Index.(type) {
		case *ast.Ident, *ast.SelectorExpr:
		default:
			rep.Uncontrolled = append(rep.Uncontrolled, fc.pos(n)+": map with unordered key type assigned with a non-trivial key expression")
			continue
		}
		regs = append(regs, &ast.ExprStmt{X: fc.simCall("RegKey", ix.Index)})
	}
	if len(regs) == 0 {
		return
	}
	c.Replace(&ast.BlockStmt{List: append(regs, n)})
	count("mapassign-regkey")
}

func notBlank(e ast.Expr) bool {
	if e == nil {
		return false
	}
	if id, ok := e.(*ast.Ident); ok && id.Name == "_" {
		return false
	}
	return true
}

func (fc *fileCtx) rewriteMapRange(c *astutil.Cursor, n *ast.RangeStmt) {
	it := ast.NewIdent(fc.tmp())
	var pre []ast.Stmt
	tok := n.Tok
	if tok == token.ILLEGAL {
		tok = token.DEFINE
	}
	if notBlank(n.Key) {
		pre = append(pre, &ast.AssignStmt{Lhs: []ast.Expr{n.Key}, Tok: tok, Rhs: []ast.Expr{call(&ast.SelectorExpr{X: it, Sel: ast.NewIdent("Key")})}})
	}
	if notBlank(n.Value) {
		pre = append(pre, &ast.AssignStmt{Lhs: []ast.Expr{n.Value}, Tok: tok, Rhs: []ast.Expr{call(&ast.SelectorExpr{X: it, Sel: ast.NewIdent("Val")})}})
	}
	body := &ast.BlockStmt{List: append(pre, n.Body.List...)}
	fs := &ast.ForStmt{
		Init: &ast.AssignStmt{Lhs: []ast.Expr{it}, Tok: token.DEFINE, Rhs: []ast.Expr{fc.simCall("MapIter", n.X)}},
		Cond: call(&ast.SelectorExpr{X: it, Sel: ast.NewIdent("Next")}),
		Body: body,
	}
	c.Replace(fs)
	rep.MapRanges = append(rep.MapRanges, fc.pos(n))
	count("maprange")
}

func (fc *fileCtx) rewriteChanRange(c *astutil.Cursor, n *ast.RangeStmt) {
	ch := ast.NewIdent(fc.tmp())
	ok := ast.NewIdent(fc.tmp())
	var lhs ast.Expr = ast.NewIdent("_")
	tok := n.Tok
	if notBlank(n.Key) {
		lhs = n.Key
	}
	if tok == token.ILLEGAL || !notBlank(n.Key) {
		tok = token.DEFINE
	}
	recv := &ast.AssignStmt{Lhs: []ast.Expr{lhs, ok}, Tok: tok, Rhs: []ast.Expr{fc.simCall("Recv2", ch)}}
	var pre []ast.Stmt
	if tok == token.ASSIGN {
		pre = append(pre, &ast.DeclStmt{Decl: &ast.GenDecl{Tok: token.VAR, Specs: []ast.Spec{&ast.ValueSpec{Names: []*ast.Ident{ok}, Type: ast.NewIdent("bool")}}}})
	}
	pre = append(pre, recv, &ast.IfStmt{Cond: &ast.UnaryExpr{Op: token.NOT, X: ok}, Body: &ast.BlockStmt{List: []ast.Stmt{&ast.BranchStmt{Tok: token.BREAK}}}})
	fs := &ast.ForStmt{
		Init: &ast.AssignStmt{Lhs: []ast.Expr{ch}, Tok: token.DEFINE, Rhs: []ast.Expr{n.X}},
		Body: &ast.BlockStmt{List: append(pre, n.Body.List...)},
	}
	c.Replace(fs)
	count("chanrange")
}

func addImport(f *ast.File, name, path string) {
	is := &ast.ImportSpec{Name: ast.NewIdent(name), Path: &ast.BasicLit{Kind: token.STRING, Value: strconv.Quote(path)}}
	gd := &ast.GenDecl{Tok: token.IMPORT, Specs: []ast.Spec{is}}
	f.Decls = append([]ast.Decl{gd}, f.Decls...)
	f.Imports = append(f.Imports, is)
}

// dropUnusedImports removes imports whose package name no longer appears in
// the file (time after the Sleep rewrite, os after the Exit rewrite, ...).
func (fc *fileCtx) dropUnusedImports() {
	used := map[string]bool{}
	ast.Inspect(fc.file, func(n ast.Node) bool {
		if s, ok := n.(*ast.SelectorExpr); ok {
			if id, ok := s.X.(*ast.Ident); ok {
				used[id.Name] = true
			}
		}
		return true
	})
	nameOf := func(is *ast.ImportSpec) string {
		if is.Name != nil {
			return is.Name.Name
		}
		path, _ := strconv.Unquote(is.Path.Value)
		// Use the type checker's knowledge of the package name when available.
		for id, obj := range fc.info.Uses {
			if pn, ok := obj.(*types.PkgName); ok && pn.Imported().Path() == path {
				_ = id
				return pn.Name()
			}
		}
		return path[strings.LastIndex(path, "/")+1:]
	}
	for _, d := range fc.file.Decls {
		gd, ok := d.(*ast.GenDecl)
		if !ok || gd.Tok != token.IMPORT {
			continue
		}
		var keep []ast.Spec
		for _, s := range gd.Specs {
			is := s.(*ast.ImportSpec)
			n := nameOf(is)
			if n == "_" || n == "." || used[n] {
				keep = append(keep, s)
			} else if wasUsedOriginally(fc, is) {
				// became unused through a rewrite: drop
				count("import-dropped")
			} else {
				keep = append(keep, s) // leave genuinely odd imports to the compiler
			}
		}
		gd.Specs = keep
	}
	var decls []ast.Decl
	for _, d := range fc.file.Decls {
		if gd, ok := d.(*ast.GenDecl); ok && gd.Tok == token.IMPORT && len(gd.Specs) == 0 {
			continue
		}
		decls = append(decls, d)
	}
	fc.file.Decls = decls
}

func wasUsedOriginally(fc *fileCtx, is *ast.ImportSpec) bool {
	path, _ := strconv.Unquote(is.Path.Value)
	for orig, np := range rep.Imports {
		if np == path {
			path = orig
		}
	}
	for _, obj := range fc.info.Uses {
		if pn, ok := obj.(*types.PkgName); ok && (pn.Imported().Path() == path) {
			return true
		}
	}
	return true
}

func (fc *fileCtx) write() {
	// Keep only directive comments: the copy exists to be compiled, and
	// free-floating comments next to rewritten nodes can be misplaced by the
	// printer.
	var keep []*ast.CommentGroup
	for _, cg := range fc.file.Comments {
		dir := false
		for _, cm := range cg.List {
			if strings.HasPrefix(cm.Text, "//go:") || strings.HasPrefix(cm.Text, "// +build") || strings.HasPrefix(cm.Text, "//line ") {
				dir = true
			}
		}
		if dir {
			keep = append(keep, cg)
		}
	}
	fc.file.Comments = keep
	fc.file.Doc = nil
	var buf bytes.Buffer
	cfg := printer.Config{Mode: printer.UseSpaces | printer.TabIndent | printer.SourcePos, Tabwidth: 8}
	if err := cfg.Fprint(&buf, fc.fset, fc.file); err != nil {
		fatal("print %s: %v", fc.name, err)
	}
	if err := os.WriteFile(fc.name, buf.Bytes(), 0o644); err != nil {
		fatal("write %s: %v", fc.name, err)
	}
}
