module verif/instrument

go 1.26
